#![no_main]
//! Coverage-guided target: bytes -> structured case -> the engine's own oracles (ASan + debug assertions on).
use libfuzzer_sys::fuzz_target;
use vf_engine::types::Outcome;

fuzz_target!(|data: &[u8]| {
    if let Some(case) = vf_engine::fuzzdec::decode(data, 2) {
        let out = match vf_engine::exec::catch(|| vf_engine::props::run_case(&case)) {
            Ok(o) => o,
            Err(p) => Outcome::bad(format!("panic outside a wrapped call: {} @ {}", p.msg, p.loc)),
        };
        if let Outcome::Violated { reason } = out {
            eprintln!("VF-FUZZ-VIOLATION {}", case.to_json());
            eprintln!("VF-FUZZ-REASON {}", reason);
            std::process::abort();
        }
    }
});
