//! Calling into rustfft: planners behind one enum, the four entry points, panic capture/classification.
use crate::types::*;
use rustfft::num_complex::Complex;
use rustfft::{Fft, FftDirection, FftNum, FftPlanner, FftPlannerAvx, FftPlannerScalar, FftPlannerSse};
use std::cell::RefCell;
use std::panic::{catch_unwind, AssertUnwindSafe};
use std::sync::Arc;
use std::sync::Once;

// ---------------------------------------------------------------------------------------------
// panic capture

#[derive(Clone, Debug)]
pub struct PanicInfo {
    pub msg: String,
    pub loc: String,
}
thread_local! {
    static LAST_PANIC: RefCell<Option<PanicInfo>> = RefCell::new(None);
    static QUIET: RefCell<bool> = RefCell::new(false);
}
static HOOK: Once = Once::new();

pub fn install_panic_hook() {
    HOOK.call_once(|| {
        let default = std::panic::take_hook();
        std::panic::set_hook(Box::new(move |info| {
            let msg = if let Some(s) = info.payload().downcast_ref::<&str>() {
                s.to_string()
            } else if let Some(s) = info.payload().downcast_ref::<String>() {
                s.clone()
            } else {
                "<non-string panic payload>".to_string()
            };
            let loc = info.location().map(|l| format!("{}:{}", l.file(), l.line())).unwrap_or_default();
            let quiet = QUIET.with(|q| *q.borrow());
            LAST_PANIC.with(|p| *p.borrow_mut() = Some(PanicInfo { msg, loc }));
            if !quiet {
                default(info);
            }
        }));
    });
}

/// Runs `f`, catching any panic (quietly) and returning its message and location.
pub fn catch<R>(f: impl FnOnce() -> R) -> Result<R, PanicInfo> {
    install_panic_hook();
    let prev = QUIET.with(|q| std::mem::replace(&mut *q.borrow_mut(), true));
    LAST_PANIC.with(|p| *p.borrow_mut() = None);
    let r = catch_unwind(AssertUnwindSafe(f));
    QUIET.with(|q| *q.borrow_mut() = prev);
    match r {
        Ok(v) => Ok(v),
        Err(_) => Err(LAST_PANIC
            .with(|p| p.borrow_mut().take())
            .unwrap_or(PanicInfo { msg: "<unknown panic>".into(), loc: String::new() })),
    }
}

#[derive(Copy, Clone, Debug, PartialEq, Eq)]
pub enum PanicClass {
    /// one of the documented call-shape panics
    Contract,
    /// a failed bounds debug-assert / unsafe-precondition check: an out-of-bounds access in an optimised build
    OobWitness,
    /// safe-code index or slice panic (not a memory error, but not a documented contract panic either)
    SafeIndex,
    Other,
}

pub fn classify_panic(p: &PanicInfo) -> PanicClass {
    let m = p.msg.as_str();
    const CONTRACT: [&str; 4] = [
        "Provided FFT buffer was too small",
        "Input FFT buffer must be a multiple of FFT length",
        "Not enough scratch space was provided",
        "Provided FFT input buffer and output buffer must have the same length",
    ];
    if CONTRACT.iter().any(|c| m.contains(c)) {
        return PanicClass::Contract;
    }
    // Butterfly1 / copy_from_slice length mismatch is how length-1 transforms report unequal buffers
    if m.contains("source slice length") && m.contains("does not match destination slice length") {
        return PanicClass::Contract;
    }
    if m.contains("unsafe precondition") {
        return PanicClass::OobWitness;
    }
    let in_accessor = p.loc.contains("array_utils.rs") || p.loc.contains("sse_vector.rs") || p.loc.contains("avx_vector.rs")
        || p.loc.contains("neon_vector.rs");
    if m.starts_with("assertion failed") && in_accessor {
        return PanicClass::OobWitness;
    }
    if m.contains("out of range for slice") || m.contains("index out of bounds") || m.contains("out of bounds")
        || m.contains("mid > len")
    {
        return PanicClass::SafeIndex;
    }
    PanicClass::Other
}

// ---------------------------------------------------------------------------------------------
// planners

pub enum AnyPlanner<T: FftNum> {
    Auto(FftPlanner<T>),
    Scalar(FftPlannerScalar<T>),
    Sse(FftPlannerSse<T>),
    Avx(FftPlannerAvx<T>),
}
impl<T: FftNum> AnyPlanner<T> {
    /// None when a SIMD planner declines (instruction set unavailable, compiled out, or foreign type)
    pub fn new(kind: Planner) -> Option<AnyPlanner<T>> {
        match kind {
            Planner::Auto => Some(AnyPlanner::Auto(FftPlanner::new())),
            Planner::Scalar => Some(AnyPlanner::Scalar(FftPlannerScalar::new())),
            Planner::Sse => FftPlannerSse::new().ok().map(AnyPlanner::Sse),
            Planner::Avx => FftPlannerAvx::new().ok().map(AnyPlanner::Avx),
        }
    }
    pub fn plan(&mut self, n: usize, dir: Dir) -> Arc<dyn Fft<T>> {
        let d = dir.to_fft();
        match self {
            AnyPlanner::Auto(p) => p.plan_fft(n, d),
            AnyPlanner::Scalar(p) => p.plan_fft(n, d),
            AnyPlanner::Sse(p) => p.plan_fft(n, d),
            AnyPlanner::Avx(p) => p.plan_fft(n, d),
        }
    }
    /// the other public spelling of the same request
    pub fn plan_named(&mut self, n: usize, dir: Dir) -> Arc<dyn Fft<T>> {
        match (self, dir) {
            (AnyPlanner::Auto(p), Dir::Fwd) => p.plan_fft_forward(n),
            (AnyPlanner::Auto(p), Dir::Inv) => p.plan_fft_inverse(n),
            (AnyPlanner::Scalar(p), Dir::Fwd) => p.plan_fft_forward(n),
            (AnyPlanner::Scalar(p), Dir::Inv) => p.plan_fft_inverse(n),
            (AnyPlanner::Sse(p), Dir::Fwd) => p.plan_fft_forward(n),
            (AnyPlanner::Sse(p), Dir::Inv) => p.plan_fft_inverse(n),
            (AnyPlanner::Avx(p), Dir::Fwd) => p.plan_fft_forward(n),
            (AnyPlanner::Avx(p), Dir::Inv) => p.plan_fft_inverse(n),
        }
    }
    /// H2: Debug text of the plan this planner would use now (labels / structure clauses only)
    #[allow(unused_variables)]
    pub fn plan_text(&mut self, n: usize, dir: Dir) -> String {
        let d: FftDirection = dir.to_fft();
        match self {
            AnyPlanner::Auto(p) => p.verif_plan(n, d),
            AnyPlanner::Scalar(p) => p.verif_recipe(n),
            #[cfg(feature = "sse")]
            AnyPlanner::Sse(p) => p.verif_recipe(n),
            #[cfg(feature = "avx")]
            AnyPlanner::Avx(p) => p.verif_plan(n, d),
            #[allow(unreachable_patterns)]
            _ => "unavailable".to_string(),
        }
    }
    pub fn chosen(&self) -> &'static str {
        match self {
            AnyPlanner::Auto(p) => p.verif_chosen(),
            AnyPlanner::Scalar(_) => "scalar",
            AnyPlanner::Sse(_) => "sse",
            AnyPlanner::Avx(_) => "avx",
        }
    }
}

// ---------------------------------------------------------------------------------------------
// entry points

pub fn adv_scratch<T: FftNum>(fft: &dyn Fft<T>, entry: Entry) -> usize {
    match entry {
        Entry::Process => 0,
        Entry::Inplace => fft.get_inplace_scratch_len(),
        Entry::Outofplace => fft.get_outofplace_scratch_len(),
        Entry::Immutable => fft.get_immutable_scratch_len(),
    }
}

/// One raw call. `data` is the buffer / input, `out` is only used by the two-buffer entry points.
pub fn raw_call<T: FftNum>(
    fft: &dyn Fft<T>,
    entry: Entry,
    data: &mut [Complex<T>],
    out: &mut [Complex<T>],
    scratch: &mut [Complex<T>],
) {
    match entry {
        Entry::Process => fft.process(data),
        Entry::Inplace => fft.process_with_scratch(data, scratch),
        Entry::Outofplace => fft.process_outofplace_with_scratch(data, out, scratch),
        Entry::Immutable => fft.process_immutable_with_scratch(data, out, scratch),
    }
}
pub fn result_in_out(entry: Entry) -> bool {
    matches!(entry, Entry::Outofplace | Entry::Immutable)
}

/// Transform `input` (k*n elements) through `entry` with zeroed scratch of exactly the advertised length
/// and a zeroed output buffer; returns the result vector.
pub fn transform<T: Real>(fft: &dyn Fft<T>, entry: Entry, input: &[Complex<T>]) -> Result<Vec<Complex<T>>, PanicInfo> {
    let zero = Complex { re: T::of_f64(0.0), im: T::of_f64(0.0) };
    let mut data = input.to_vec();
    let mut out = if result_in_out(entry) { vec![zero; input.len()] } else { vec![] };
    let mut scratch = vec![zero; adv_scratch(fft, entry)];
    catch(|| raw_call(fft, entry, &mut data, &mut out, &mut scratch))?;
    Ok(if result_in_out(entry) { out } else { data })
}

/// as `transform` but with caller-chosen fills and scratch slack
pub fn transform_filled<T: Real>(
    fft: &dyn Fft<T>,
    entry: Entry,
    input: &[Complex<T>],
    scratch_extra: usize,
    scratch_fill: Complex<T>,
    out_fill: Complex<T>,
) -> Result<Vec<Complex<T>>, PanicInfo> {
    let mut data = input.to_vec();
    let mut out = if result_in_out(entry) { vec![out_fill; input.len()] } else { vec![] };
    let mut scratch = vec![scratch_fill; adv_scratch(fft, entry) + scratch_extra];
    catch(|| raw_call(fft, entry, &mut data, &mut out, &mut scratch))?;
    Ok(if result_in_out(entry) { out } else { data })
}

pub fn fill_value<T: Real>(id: i64) -> Complex<T> {
    let v = match id {
        0 => 0.0,
        1 => f64::NAN,
        2 => f64::INFINITY,
        3 => f64::NEG_INFINITY,
        4 => {
            if T::MAX_EXP < 200 {
                1.0e38
            } else {
                8.0e307
            }
        }
        _ => -1.5,
    };
    Complex { re: T::of_f64(v), im: T::of_f64(if id == 4 { -v } else { v }) }
}
pub const FILL_NAMES: [&str; 6] = ["zero", "NaN", "+Inf", "-Inf", "huge", "-1.5"];
