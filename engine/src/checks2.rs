//! More call-level checks: round trip (C06), chunk independence (C07), scratch purity (C08),
//! call-shape contract (C09), immutable input (C15), guard-paged calls (C03).
use crate::checks::*;
use crate::exec::*;
use crate::gen::{is_zero_vec, make_input, mix};
use crate::guard::{Flush, Guarded};
use crate::types::*;
use rustfft::num_complex::Complex;
use rustfft::Fft;
use std::sync::Arc;

fn l2<T: Real>(v: &[Complex<T>]) -> f64 {
    v.iter().map(|c| c.re.to_f64().powi(2) + c.im.to_f64().powi(2)).sum::<f64>().sqrt()
}
/// ||a - s*b||_2
fn dist_scaled<T: Real>(a: &[Complex<T>], b: &[Complex<T>], s: f64) -> f64 {
    a.iter()
        .zip(b)
        .map(|(x, y)| (x.re.to_f64() - s * y.re.to_f64()).powi(2) + (x.im.to_f64() - s * y.im.to_f64()).powi(2))
        .sum::<f64>()
        .sqrt()
}
fn conj_vec<T: Real>(v: &[Complex<T>]) -> Vec<Complex<T>> {
    v.iter().map(|c| Complex { re: c.re, im: T::of_f64(-c.im.to_f64()) }).collect()
}
fn zero<T: Real>() -> Complex<T> {
    Complex { re: T::of_f64(0.0), im: T::of_f64(0.0) }
}
fn same_bits<T: Real>(a: &[Complex<T>], b: &[Complex<T>]) -> Option<usize> {
    a.iter().zip(b).position(|(x, y)| x.re.bits() != y.re.bits() || x.im.bits() != y.im.bits())
}
pub fn first_nonfinite<T: Real>(a: &[Complex<T>]) -> Option<usize> {
    a.iter().position(|c| !c.re.is_fin() || !c.im.is_fin())
}

// ---------------------------------------------------------------------------------------------
// kind "roundtrip" (C06)
// p[0]: 0 = plan forward then inverse on one planner, 1 = inverse then forward on one planner, 2 = two planners
// p[1]: entry-point index of the second transform; case.entry is the first transform's entry point

pub fn k_roundtrip<T: Real>(case: &Case) -> Outcome {
    let n = case.n;
    let order = case.pget(0);
    let entry2 = ENTRIES[(case.pget(1) as usize) % 4];
    let mk = || AnyPlanner::<T>::new(case.planner);
    let mut p1 = match mk() {
        Some(p) => p,
        None => return Outcome::skip(format!("planner {:?} unavailable in this configuration", case.planner)),
    };
    // the two public spellings of a request alternate with the parity of n + order
    let named = (n as i64 + order) % 2 == 1;
    let planned = catch(|| {
        let mut req = |p: &mut AnyPlanner<T>, d: Dir| if named { p.plan_named(n, d) } else { p.plan(n, d) };
        match order {
            0 => {
                let f = req(&mut p1, Dir::Fwd);
                let i = req(&mut p1, Dir::Inv);
                (f, i)
            }
            1 => {
                let i = req(&mut p1, Dir::Inv);
                let f = req(&mut p1, Dir::Fwd);
                (f, i)
            }
            _ => {
                let mut p2 = mk().unwrap();
                let f = req(&mut p1, Dir::Fwd);
                let i = req(&mut p2, Dir::Inv);
                (f, i)
            }
        }
    });
    let (fwd, inv): (Arc<dyn Fft<T>>, Arc<dyn Fft<T>>) = match planned {
        Ok(x) => x,
        Err(p) => return Outcome::bad(format!("planning both directions of n={} panicked: {} @ {}", n, p.msg, p.loc)),
    };
    drop(p1);
    if Dir::from_fft(fwd.fft_direction()) != Dir::Fwd || Dir::from_fft(inv.fft_direction()) != Dir::Inv || fwd.len() != n || inv.len() != n {
        return Outcome::bad(format!(
            "planner returned (len {}, {:?}) for the forward and (len {}, {:?}) for the inverse request of n={}",
            fwd.len(), fwd.fft_direction(), inv.len(), inv.fft_direction(), n
        ));
    }
    if n == 0 {
        return Outcome::held(false);
    }
    let x = make_input::<T>(&case.input, n, 1);
    if is_zero_vec(&x) {
        return Outcome::skip("zero input");
    }
    let b = bound(n, T::EPS);
    let nx = l2(&x);
    let run = |f: &Arc<dyn Fft<T>>, e: Entry, v: &[Complex<T>]| transform(&**f, e, v);
    macro_rules! tr {
        ($f:expr, $e:expr, $v:expr) => {
            match run($f, $e, $v) {
                Ok(o) => o,
                Err(p) => return Outcome::bad(format!("well-shaped call panicked: {} @ {}", p.msg, p.loc)),
            }
        };
    }
    // inverse(forward(x)) = n*x
    let y = tr!(&fwd, case.entry, &x);
    let z = tr!(&inv, entry2, &y);
    let e1 = dist_scaled(&z, &x, n as f64) / (n as f64 * nx);
    if !(e1 <= 2.5 * b) {
        return Outcome::bad(format!(
            "inverse(forward(x)) != n*x: ||z - n*x||/(n*||x||) = {:.3e} > 2.5*B = {:.3e} (first element: got ({},{}), n*x = ({:.6e},{:.6e}))",
            e1, 2.5 * b, z[0].re, z[0].im, n as f64 * x[0].re.to_f64(), n as f64 * x[0].im.to_f64()
        ));
    }
    // forward(inverse(x)) = n*x
    let y2 = tr!(&inv, entry2, &x);
    let z2 = tr!(&fwd, case.entry, &y2);
    let e2 = dist_scaled(&z2, &x, n as f64) / (n as f64 * nx);
    if !(e2 <= 2.5 * b) {
        return Outcome::bad(format!("forward(inverse(x)) != n*x: ||z - n*x||/(n*||x||) = {:.3e} > 2.5*B = {:.3e}", e2, 2.5 * b));
    }
    // inverse(x) = conj(forward(conj(x)))
    let c = conj_vec(&tr!(&fwd, case.entry, &conj_vec(&x)));
    let e3 = dist_scaled(&y2, &c, 1.0) / l2(&c);
    if !(e3 <= 2.5 * b) {
        return Outcome::bad(format!("inverse(x) != conj(forward(conj(x))): relative distance {:.3e} > 2.5*B = {:.3e}", e3, 2.5 * b));
    }
    Outcome::held(n >= 2)
        .ratio(format!("roundtrip err/(2.5B) {:?} {}", case.planner, T::NAME), e1.max(e2).max(e3) / (2.5 * b))
        .label(format!("len:{}", crate::gen::classify_len(n)))
        .label(format!("order:{}", ["fwd-then-inv", "inv-then-fwd", "two planners"][(order as usize).min(2)]))
}

// ---------------------------------------------------------------------------------------------
// kind "chunks" (C07)
// p[0]: index of the chunk kept for the isolation test; p[1]: filler of the other chunks (1 NaN, 2 +Inf, 3 -Inf, 4 huge, 5 other finite)

pub fn k_chunks<T: Real>(case: &Case) -> Outcome {
    let fft = match obtain::<T>(case) {
        Ok(f) => f,
        Err(o) => return o,
    };
    if let Err(o) = identity_ok(case, &fft) {
        return o;
    }
    let n = case.n;
    let k = case.chunks.max(1);
    if n == 0 {
        return Outcome::skip("n=0");
    }
    let input = make_input::<T>(&case.input, n, k);
    let b = bound(n, T::EPS);
    // p[2]: slack code of the scratch handed to the k-chunk call (0 = exactly the advertised length; see `extra_scratch`)
    let zero_c = Complex { re: T::of_f64(0.0), im: T::of_f64(0.0) };
    let extra = if case.entry == Entry::Process { 0 } else { extra_scratch(case.pget(2), adv_scratch(&*fft, case.entry), n, k) };
    let whole = match transform_filled(&*fft, case.entry, &input, extra, zero_c, zero_c) {
        Ok(o) => o,
        Err(p) => return Outcome::bad(format!("well-shaped {}-chunk call (scratch = advertised + {}) panicked: {} @ {}", k, extra, p.msg, p.loc)),
    };
    // A: every chunk equals the same chunk passed alone (up to rounding: both are within B of the exact DFT)
    let mut worst = 0.0f64;
    for i in 0..k {
        let ch = &input[i * n..(i + 1) * n];
        let alone = match transform(&*fft, case.entry, ch) {
            Ok(o) => o,
            Err(p) => return Outcome::bad(format!("single-chunk call panicked: {} @ {}", p.msg, p.loc)),
        };
        let na = l2(&alone);
        if na == 0.0 {
            if whole[i * n..(i + 1) * n].iter().any(|c| c.re.to_f64() != 0.0 || c.im.to_f64() != 0.0) {
                return Outcome::bad(format!("chunk {} of {} is zero when passed alone but non-zero inside the {}-chunk call", i, k, k));
            }
            continue;
        }
        let d = dist_scaled(&whole[i * n..(i + 1) * n], &alone, 1.0) / na;
        if !(d <= 2.5 * b) {
            return Outcome::bad(format!(
                "chunk {} of a {}-chunk call (scratch = advertised + {}) differs from the same chunk transformed alone: relative distance {:.3e} > 2.5*B = {:.3e}",
                i, k, extra, d, 2.5 * b
            ));
        }
        worst = worst.max(d / (2.5 * b));
    }
    // B: isolation — other chunks' contents must not influence chunk i0 (bitwise; same code path, same data)
    if k >= 2 {
        let i0 = (case.pget(0) as usize) % k;
        let fill: Complex<T> = fill_value(case.pget(1).max(1));
        let mut other = vec![fill; n * k];
        if case.pget(1) == 5 {
            other = make_input::<T>(&InputSpec::fam("uniform", mix(case.input.seed, 99)), n, k);
        }
        other[i0 * n..(i0 + 1) * n].copy_from_slice(&input[i0 * n..(i0 + 1) * n]);
        let out2 = match transform_filled(&*fft, case.entry, &other, extra, zero_c, zero_c) {
            Ok(o) => o,
            Err(p) => return Outcome::bad(format!("well-shaped call panicked when other chunks hold {}: {} @ {}", FILL_NAMES[case.pget(1).clamp(0, 5) as usize], p.msg, p.loc)),
        };
        let a = &whole[i0 * n..(i0 + 1) * n];
        let bq = &out2[i0 * n..(i0 + 1) * n];
        if let Some(j) = first_nonfinite(bq) {
            return Outcome::bad(format!(
                "result of chunk {} depends on other chunks: element {} became ({},{}) when the other {} chunk(s) were filled with {}",
                i0, j, bq[j].re, bq[j].im, k - 1, FILL_NAMES[case.pget(1).clamp(0, 5) as usize]
            ));
        }
        if let Some(j) = same_bits(a, bq) {
            return Outcome::bad(format!(
                "result of chunk {} depends on other chunks: element {} is ({},{}) vs ({},{}) after only the OTHER chunks changed (filler {})",
                i0, j, a[j].re, a[j].im, bq[j].re, bq[j].im, FILL_NAMES[case.pget(1).clamp(0, 5) as usize]
            ));
        }
    }
    Outcome::held(k >= 2 && n >= 2)
        .ratio(format!("chunk-vs-alone/(2.5B) {:?} {}", case.planner, T::NAME), worst)
        .label(format!("chunks:{}", if k % 2 == 0 { "even" } else { "odd" }))
        .label(format!("entry:{:?}", case.entry))
        .label(format!("len:{}", crate::gen::classify_len(n)))
}

// ---------------------------------------------------------------------------------------------
// kind "scratch" (C08)
// p[0]: scratch slack (-1 = twice the advertised length), p[1]: scratch fill id, p[2]: output fill id

/// extra scratch elements beyond the advertised length for a slack code: >= 0 literal; -1 twice the advertised length;
/// -2 k*max(adv,n) in total (one scratch per chunk); -3 four chunks' worth more; -4 (k+3)*n + k*adv in total
pub fn extra_scratch(code: i64, adv: usize, n: usize, k: usize) -> usize {
    match code {
        c if c >= 0 => c as usize,
        -1 => adv,
        -2 => (k * adv.max(n)).saturating_sub(adv),
        -3 => 4 * n,
        _ => ((k + 3) * n + k * adv).saturating_sub(adv),
    }
}

pub fn k_scratch<T: Real>(case: &Case) -> Outcome {
    let fft = match obtain::<T>(case) {
        Ok(f) => f,
        Err(o) => return o,
    };
    if let Err(o) = identity_ok(case, &fft) {
        return o;
    }
    let n = case.n;
    if n == 0 || case.entry == Entry::Process {
        return Outcome::skip("no explicit scratch");
    }
    let adv = adv_scratch(&*fft, case.entry);
    let extra = extra_scratch(case.pget(0), adv, n, case.chunks.max(1));
    let input = make_input::<T>(&case.input, n, case.chunks.max(1));
    // baseline: exactly the advertised length, zero-filled scratch and output
    let base = match transform(&*fft, case.entry, &input) {
        Ok(o) => o,
        Err(p) => return Outcome::bad(format!("scratch of exactly the advertised length ({}) was rejected or the call panicked: {} @ {}", adv, p.msg, p.loc)),
    };
    if first_nonfinite(&base).is_some() {
        return Outcome::skip("baseline not finite");
    }
    let sfill: Complex<T> = fill_value(case.pget(1));
    let ofill: Complex<T> = fill_value(case.pget(2));
    let var = match transform_filled(&*fft, case.entry, &input, extra, sfill, ofill) {
        Ok(o) => o,
        Err(p) => return Outcome::bad(format!("call with scratch length {}+{} panicked: {} @ {}", adv, extra, p.msg, p.loc)),
    };
    let sname = FILL_NAMES[case.pget(1).clamp(0, 5) as usize];
    let oname = FILL_NAMES[case.pget(2).clamp(0, 5) as usize];
    if let Some(j) = first_nonfinite(&var) {
        return Outcome::bad(format!(
            "output depends on stale scratch/output contents: element {} is ({},{}) with scratch filled with {} (len {}+{}) and output with {}",
            j, var[j].re, var[j].im, sname, adv, extra, oname
        ));
    }
    if let Some(j) = same_bits(&base, &var) {
        return Outcome::bad(format!(
            "output is not bit-identical when only scratch/output initial contents or scratch length change: element {} ({},{}) vs ({},{}); scratch {} len {}+{}, output fill {}",
            j, base[j].re, base[j].im, var[j].re, var[j].im, sname, adv, extra, oname
        ));
    }
    Outcome::held(adv > 0 || case.entry != Entry::Inplace)
        .label(format!("scratchfill:{}", sname))
        .label(format!("entry:{:?}", case.entry))
        .label(format!("adv:{}", if adv == 0 { "0" } else if adv <= n { "<=n" } else { ">n" }))
        .label(format!("len:{}", crate::gen::classify_len(n)))
}

// ---------------------------------------------------------------------------------------------
// kind "shape" (C09, and the ill-shaped half of C03)
// p[0]: data length, p[1]: output length (two-buffer entry points), p[2]: scratch code (0: none, 1: adv-1, 2: adv, 3: adv+1)
// p[3]: guard orientation (0 high, 1 low)

fn truncate_msg(m: &str) -> String {
    m.chars().take(160).collect()
}

pub fn k_shape<T: Real>(case: &Case) -> Outcome {
    let fft = match obtain::<T>(case) {
        Ok(f) => f,
        Err(o) => return o,
    };
    if let Err(o) = identity_ok(case, &fft) {
        return o;
    }
    let n = case.n;
    if n == 0 {
        return Outcome::skip("n=0 is outside the documented call contract");
    }
    let data_len = case.pget(0).max(0) as usize;
    if data_len == 0 {
        return Outcome::skip("empty data is outside the property's wording");
    }
    let two = result_in_out(case.entry);
    let out_len = if two { case.pget(1).max(0) as usize } else { 0 };
    let adv = adv_scratch(&*fft, case.entry);
    let scratch_len = if case.entry == Entry::Process {
        0
    } else {
        match case.pget(2) {
            0 => 0,
            1 => adv.saturating_sub(1),
            2 => adv,
            _ => adv + 1,
        }
    };
    let well = data_len % n == 0 && (!two || out_len == data_len) && (case.entry == Entry::Process || scratch_len >= adv);
    let flush = Flush::from_code(case.pget(3));
    let src = make_input::<T>(&case.input, data_len, 1);
    let mut data = Guarded::from_slice(&src, flush);
    let mut out = Guarded::<Complex<T>>::new(out_len, flush, fill_value(1));
    let mut scratch = Guarded::<Complex<T>>::new(scratch_len, flush, fill_value(1));
    let r = catch(|| raw_call(&*fft, case.entry, data.as_mut_slice(), out.as_mut_slice(), scratch.as_mut_slice()));
    let shape = format!("data {} / out {} / scratch {} (advertised {}), n={}", data_len, if two { out_len.to_string() } else { "-".into() }, scratch_len, adv, n);
    match (well, r) {
        (false, Ok(())) => Outcome::bad(format!("ill-shaped call returned normally instead of panicking: {}", shape)),
        (false, Err(p)) => {
            if classify_panic(&p) == PanicClass::OobWitness {
                return Outcome::bad(format!("ill-shaped call reached an out-of-bounds access (bounds debug-assert fired) before any contract panic: {} @ {}; {}", p.msg, p.loc, shape));
            }
            let documented = classify_panic(&p) == PanicClass::Contract;
            // the failed call must leave the instance usable: a well-shaped call through the same entry point right afterwards
            // (the first half of the property, on an instance with this history) must complete
            let one = make_input::<T>(&case.input, n, 1);
            if let Err(p2) = transform(&*fft, case.entry, &one) {
                return Outcome::bad(format!(
                    "well-shaped call panicked on an instance whose previous (ill-shaped) call had ended in a panic: {} @ {}; the ill-shaped call was {} and panicked with: {}",
                    p2.msg, p2.loc, shape, truncate_msg(&p.msg)
                ));
            }
            Outcome::held(true).label(if documented { "ill-shaped: documented panic text" } else { "ill-shaped: other panic text" }).label(format!("entry:{:?}", case.entry))
        }
        (true, Err(p)) => Outcome::bad(format!("well-shaped call panicked: {} @ {}; {}", p.msg, p.loc, shape)),
        (true, Ok(())) => {
            // every chunk must have been transformed: compare with the single-chunk transform
            let res: &[Complex<T>] = if two { out.as_slice() } else { data.as_slice() };
            let b = bound(n, T::EPS);
            for (i, ch) in src.chunks(n).enumerate() {
                let alone = match transform(&*fft, case.entry, ch) {
                    Ok(o) => o,
                    Err(p) => return Outcome::bad(format!("single-chunk call panicked: {} @ {}", p.msg, p.loc)),
                };
                let na = l2(&alone);
                let got = &res[i * n..(i + 1) * n];
                if first_nonfinite(got).is_some() {
                    return Outcome::bad(format!("well-shaped call left chunk {} untransformed or non-finite ({})", i, shape));
                }
                if na > 0.0 {
                    let d = dist_scaled(got, &alone, 1.0) / na;
                    if !(d <= 2.5 * b) {
                        return Outcome::bad(format!("well-shaped call did not transform chunk {}: relative distance to its transform {:.3e} ({})", i, d, shape));
                    }
                }
            }
            Outcome::held(data_len / n >= 2).label("well-shaped").label(format!("entry:{:?}", case.entry))
        }
    }
}

// ---------------------------------------------------------------------------------------------
// kind "immut" (C15)
// p[0]: data length, p[1]: output length, p[2]: scratch code, p[3]: 1 = input mapping is read-only, p[4]: scratch fill

pub fn k_immut<T: Real>(case: &Case) -> Outcome {
    let fft = match obtain::<T>(case) {
        Ok(f) => f,
        Err(o) => return o,
    };
    if let Err(o) = identity_ok(case, &fft) {
        return o;
    }
    let n = case.n;
    if n == 0 {
        return Outcome::skip("n=0");
    }
    let data_len = case.pget(0).max(0) as usize;
    let out_len = case.pget(1).max(0) as usize;
    let adv = fft.get_immutable_scratch_len();
    let scratch_len = match case.pget(2) {
        0 => 0,
        1 => adv.saturating_sub(1),
        2 => adv,
        _ => adv + 1,
    };
    let well = data_len > 0 && data_len % n == 0 && out_len == data_len && scratch_len >= adv;
    let src = make_input::<T>(&case.input, data_len, 1);
    let mut input = Guarded::from_slice(&src, Flush::High);
    let mut out = Guarded::<Complex<T>>::new(out_len, Flush::High, fill_value(1));
    let mut scratch = Guarded::<Complex<T>>::new(scratch_len, Flush::High, fill_value(case.pget(4)));
    let ro = case.pget(3) == 1;
    if ro {
        input.set_readonly(true);
    }
    let r = {
        let inp: &[Complex<T>] = input.as_slice();
        catch(|| fft.process_immutable_with_scratch(inp, out.as_mut_slice(), scratch.as_mut_slice()))
    };
    if ro {
        input.set_readonly(false);
    }
    if let Some(j) = same_bits(input.as_slice(), &src) {
        return Outcome::bad(format!(
            "process_immutable_with_scratch modified its input: element {} was ({},{}) and is now ({},{}) ({} call, data {} out {} scratch {}/{})",
            j, src[j].re, src[j].im, input.as_slice()[j].re, input.as_slice()[j].im,
            if well { "well-shaped" } else { "ill-shaped" }, data_len, out_len, scratch_len, adv
        ));
    }
    match (well, r) {
        (true, Err(p)) => Outcome::bad(format!("well-shaped immutable call panicked: {} @ {}", p.msg, p.loc)),
        (false, Ok(())) if data_len > 0 => Outcome::bad(format!("ill-shaped immutable call returned normally (data {} out {} scratch {}/{})", data_len, out_len, scratch_len, adv)),
        (w, _) => Outcome::held(n >= 2)
            .label(if w { "well-shaped" } else { "ill-shaped (panicked, input intact)" })
            .label(if ro { "input PROT_READ" } else { "input writable, compared bitwise" })
            .label(format!("len:{}", crate::gen::classify_len(n))),
    }
}

// ---------------------------------------------------------------------------------------------
// kind "guard" (C03): well-shaped call, all caller buffers in guard-page mappings, scratch exactly as advertised
// p[0]: orientation (0 high, 1 low), p[1]: scratch fill

pub fn k_guard<T: Real>(case: &Case) -> Outcome {
    let fft = match obtain::<T>(case) {
        Ok(f) => f,
        Err(o) => return o,
    };
    if let Err(o) = identity_ok(case, &fft) {
        return o;
    }
    let n = case.n;
    let k = case.chunks.max(1);
    let flush = Flush::from_code(case.pget(0));
    let src = make_input::<T>(&case.input, n, k);
    let two = result_in_out(case.entry);
    let adv = adv_scratch(&*fft, case.entry);
    let mut data = Guarded::from_slice(&src, flush);
    let mut out = Guarded::<Complex<T>>::new(if two { n * k } else { 0 }, flush, fill_value(case.pget(1)));
    let mut scratch = Guarded::<Complex<T>>::new(adv, flush, fill_value(case.pget(1)));
    let r = catch(|| raw_call(&*fft, case.entry, data.as_mut_slice(), out.as_mut_slice(), scratch.as_mut_slice()));
    if let Err(p) = r {
        return match classify_panic(&p) {
            PanicClass::OobWitness => Outcome::bad(format!(
                "out-of-bounds access (bounds debug-assert / unsafe precondition fired; an optimised build performs the access): {} @ {}",
                p.msg, p.loc
            )),
            _ => Outcome::bad(format!("well-shaped call with exactly the advertised scratch ({}) panicked: {} @ {}", adv, p.msg, p.loc)),
        };
    }
    let _ = two;
    let rows = row_residue_label(n);
    Outcome::held(n >= 2 && (k >= 2 || adv > 0 || !rows.is_empty()))
        .label(format!("entry:{:?}", case.entry))
        .label(format!("guard:{}", flush.name()))
        .label(format!("chunks:{}", k))
        .label(format!("len:{}", crate::gen::classify_len(n)))
        .label(if rows.is_empty() { "rows:aligned".to_string() } else { rows })
}

/// which SIMD row remainders a length exercises (n = radix*m with m not a multiple of the vector width)
pub fn row_residue_label(n: usize) -> String {
    for r in [16usize, 12, 11, 9, 8, 7, 6, 5, 4, 3, 2] {
        if n % r == 0 && n / r > 1 {
            let m = n / r;
            if m % 4 != 0 {
                return format!("rows:n/{} = {} mod 4", r, m % 4);
            }
            return String::new();
        }
    }
    String::new()
}
