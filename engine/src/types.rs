//! Shared vocabulary: element types, planners, directions, entry points, and the serialisable `Case`.
use rustfft::num_complex::Complex;
use rustfft::{FftDirection, FftNum};
use serde::{Deserialize, Serialize};

#[derive(Copy, Clone, Debug, PartialEq, Eq, Hash, Serialize, Deserialize, PartialOrd, Ord)]
pub enum Ty {
    F32,
    F64,
}
pub const TYS: [Ty; 2] = [Ty::F32, Ty::F64];

#[derive(Copy, Clone, Debug, PartialEq, Eq, Hash, Serialize, Deserialize, PartialOrd, Ord)]
pub enum Planner {
    Auto,
    Scalar,
    Sse,
    Avx,
}
pub const PLANNERS: [Planner; 4] = [Planner::Auto, Planner::Scalar, Planner::Sse, Planner::Avx];

#[derive(Copy, Clone, Debug, PartialEq, Eq, Hash, Serialize, Deserialize, PartialOrd, Ord)]
pub enum Dir {
    Fwd,
    Inv,
}
pub const DIRS: [Dir; 2] = [Dir::Fwd, Dir::Inv];
impl Dir {
    pub fn to_fft(self) -> FftDirection {
        match self {
            Dir::Fwd => FftDirection::Forward,
            Dir::Inv => FftDirection::Inverse,
        }
    }
    pub fn from_fft(d: FftDirection) -> Dir {
        match d {
            FftDirection::Forward => Dir::Fwd,
            FftDirection::Inverse => Dir::Inv,
        }
    }
    pub fn other(self) -> Dir {
        match self {
            Dir::Fwd => Dir::Inv,
            Dir::Inv => Dir::Fwd,
        }
    }
}

#[derive(Copy, Clone, Debug, PartialEq, Eq, Hash, Serialize, Deserialize, PartialOrd, Ord)]
pub enum Entry {
    /// `process` (allocates its own scratch)
    Process,
    /// `process_with_scratch`
    Inplace,
    /// `process_outofplace_with_scratch`
    Outofplace,
    /// `process_immutable_with_scratch`
    Immutable,
}
pub const ENTRIES: [Entry; 4] = [Entry::Process, Entry::Inplace, Entry::Outofplace, Entry::Immutable];
pub const EXPLICIT_ENTRIES: [Entry; 3] = [Entry::Inplace, Entry::Outofplace, Entry::Immutable];

/// f32 / f64 behind one interface
pub trait Real: FftNum + PartialOrd + std::fmt::Display {
    const TY: Ty;
    const EPS: f64;
    const NAME: &'static str;
    /// largest exponent e such that values up to 2^e * n stay far from overflow (used by generators)
    const MAX_EXP: i32;
    const MIN_EXP: i32;
    fn to_f64(self) -> f64;
    fn of_f64(x: f64) -> Self;
    fn bits(self) -> u64;
    fn from_bits64(b: u64) -> Self;
    fn is_fin(self) -> bool;
}
impl Real for f32 {
    const TY: Ty = Ty::F32;
    const EPS: f64 = f32::EPSILON as f64;
    const NAME: &'static str = "f32";
    const MAX_EXP: i32 = 127;
    const MIN_EXP: i32 = -126;
    fn to_f64(self) -> f64 {
        self as f64
    }
    fn of_f64(x: f64) -> Self {
        x as f32
    }
    fn bits(self) -> u64 {
        self.to_bits() as u64
    }
    fn from_bits64(b: u64) -> Self {
        f32::from_bits(b as u32)
    }
    fn is_fin(self) -> bool {
        self.is_finite()
    }
}
impl Real for f64 {
    const TY: Ty = Ty::F64;
    const EPS: f64 = f64::EPSILON;
    const NAME: &'static str = "f64";
    const MAX_EXP: i32 = 1023;
    const MIN_EXP: i32 = -1022;
    fn to_f64(self) -> f64 {
        self
    }
    fn of_f64(x: f64) -> Self {
        x
    }
    fn bits(self) -> u64 {
        self.to_bits()
    }
    fn from_bits64(b: u64) -> Self {
        f64::from_bits(b)
    }
    fn is_fin(self) -> bool {
        self.is_finite()
    }
}

pub fn cbits<T: Real>(v: &[Complex<T>]) -> Vec<(u64, u64)> {
    v.iter().map(|c| (c.re.bits(), c.im.bits())).collect()
}
pub fn all_finite<T: Real>(v: &[Complex<T>]) -> bool {
    v.iter().all(|c| c.re.is_fin() && c.im.is_fin())
}

/// The C02 bound B(n,T) = 16 * eps * log2(2n)
pub fn bound(n: usize, eps: f64) -> f64 {
    16.0 * eps * ((2 * n.max(1)) as f64).log2()
}

/// How the input vector of a case is produced: a named family plus a seed; small cases carry the
/// explicit values (so that they shrink element-wise and replay without the generator).
#[derive(Clone, Debug, Serialize, Deserialize, PartialEq)]
pub struct InputSpec {
    pub family: String,
    pub seed: u64,
    /// explicit (re, im) pairs, total length chunks*n; overrides family when present
    #[serde(default, skip_serializing_if = "Option::is_none")]
    pub explicit: Option<Vec<(f64, f64)>>,
}
impl InputSpec {
    pub fn fam(family: &str, seed: u64) -> Self {
        InputSpec { family: family.to_string(), seed, explicit: None }
    }
}

/// A planning request (C10 histories)
#[derive(Copy, Clone, Debug, Serialize, Deserialize, PartialEq, Eq, Hash)]
pub struct Req {
    pub n: usize,
    pub dir: Dir,
}

/// Expression tree over the public algorithm constructors (C12)
#[derive(Clone, Debug, Serialize, Deserialize, PartialEq, Eq, Hash)]
pub enum Tree {
    Butterfly(usize),
    Dft(usize),
    Planned(Planner, usize),
    Radix4(usize),
    Radix4Base(u32, Box<Tree>),
    Radix3(usize),
    Radix3Base(u32, Box<Tree>),
    MixedRadix(Box<Tree>, Box<Tree>),
    MixedRadixSmall(Box<Tree>, Box<Tree>),
    GoodThomas(Box<Tree>, Box<Tree>),
    GoodThomasSmall(Box<Tree>, Box<Tree>),
    Raders(Box<Tree>),
    Bluesteins(usize, Box<Tree>),
}

/// Where the transform under test comes from
#[derive(Clone, Debug, Serialize, Deserialize, PartialEq)]
pub enum Source {
    /// fresh planner, one request
    Plan,
    /// fresh planner fed `history`; the transform under test is the one returned for request `pick`
    History { reqs: Vec<Req>, pick: usize },
    /// built from public constructors
    Tree(Tree),
}

/// One generated case. `kind` names the call-level check; `p` carries its small integer parameters.
#[derive(Clone, Debug, Serialize, Deserialize, PartialEq)]
pub struct Case {
    pub prop: String,
    pub kind: String,
    pub planner: Planner,
    pub ty: Ty,
    pub dir: Dir,
    pub n: usize,
    pub entry: Entry,
    pub chunks: usize,
    pub input: InputSpec,
    #[serde(default)]
    pub p: Vec<i64>,
    #[serde(default = "default_source")]
    pub source: Source,
    /// build variant the case must run on (rel, chk, f-none, f-sse, f-avx) and CPU mask (C13)
    #[serde(default = "default_variant")]
    pub variant: String,
    #[serde(default)]
    pub mask: u32,
}
fn default_source() -> Source {
    Source::Plan
}
fn default_variant() -> String {
    "rel".to_string()
}
impl Case {
    pub fn new(prop: &str, kind: &str, planner: Planner, ty: Ty, dir: Dir, n: usize) -> Case {
        Case {
            prop: prop.to_string(),
            kind: kind.to_string(),
            planner,
            ty,
            dir,
            n,
            entry: Entry::Inplace,
            chunks: 1,
            input: InputSpec::fam("uniform", 1),
            p: vec![],
            source: Source::Plan,
            variant: crate::runner::current_variant(),
            mask: crate::runner::current_mask(),
        }
    }
    pub fn with_entry(mut self, e: Entry) -> Case {
        self.entry = e;
        self
    }
    pub fn with_chunks(mut self, k: usize) -> Case {
        self.chunks = k;
        self
    }
    pub fn with_input(mut self, i: InputSpec) -> Case {
        self.input = i;
        self
    }
    pub fn with_p(mut self, p: Vec<i64>) -> Case {
        self.p = p;
        self
    }
    pub fn with_source(mut self, s: Source) -> Case {
        self.source = s;
        self
    }
    pub fn to_json(&self) -> String {
        serde_json::to_string(self).unwrap()
    }
    pub fn pget(&self, i: usize) -> i64 {
        self.p.get(i).copied().unwrap_or(0)
    }
}

/// Outcome of running one case against its oracle
#[derive(Clone, Debug)]
pub enum Outcome {
    /// property held; `nontrivial` per the property's rule, `labels` feed the histogram,
    /// `ratios` = (name, observed/bound) pairs for the worst-ratio table
    Held { nontrivial: bool, labels: Vec<String>, ratios: Vec<(String, f64)>, counts: Vec<(String, u64)> },
    /// not judged (outside the oracle's reach); counted under `reason`
    Skipped { reason: String },
    /// property violated
    Violated { reason: String },
}
impl Outcome {
    pub fn held(nontrivial: bool) -> Outcome {
        Outcome::Held { nontrivial, labels: vec![], ratios: vec![], counts: vec![] }
    }
    pub fn bad(reason: impl Into<String>) -> Outcome {
        Outcome::Violated { reason: reason.into() }
    }
    pub fn skip(reason: impl Into<String>) -> Outcome {
        Outcome::Skipped { reason: reason.into() }
    }
    pub fn is_violation(&self) -> bool {
        matches!(self, Outcome::Violated { .. })
    }
    pub fn label(mut self, l: impl Into<String>) -> Outcome {
        if let Outcome::Held { labels, .. } = &mut self {
            labels.push(l.into());
        }
        self
    }
    /// add `by` to a named counter in the evidence (e.g. lengths covered inside one windowed case)
    pub fn count(mut self, name: impl Into<String>, by: u64) -> Outcome {
        if let Outcome::Held { counts, .. } = &mut self {
            counts.push((name.into(), by));
        }
        self
    }
    pub fn ratio(mut self, name: impl Into<String>, r: f64) -> Outcome {
        if let Outcome::Held { ratios, .. } = &mut self {
            ratios.push((name.into(), r));
        }
        self
    }
}
