//! Generators: length families (constructed, labelled) and input-vector families.
use crate::types::{InputSpec, Real};
use rustfft::num_complex::Complex;

pub fn splitmix(x: u64) -> u64 {
    let mut z = x.wrapping_add(0x9E3779B97F4A7C15);
    z = (z ^ (z >> 30)).wrapping_mul(0xBF58476D1CE4E5B9);
    z = (z ^ (z >> 27)).wrapping_mul(0x94D049BB133111EB);
    z ^ (z >> 31)
}
pub fn mix(a: u64, b: u64) -> u64 {
    splitmix(a ^ splitmix(b).rotate_left(17))
}
pub fn hash_str(s: &str) -> u64 {
    let mut h = 0xcbf29ce484222325u64;
    for b in s.bytes() {
        h ^= b as u64;
        h = h.wrapping_mul(0x100000001b3);
    }
    splitmix(h)
}

/// Expands a proptest-drawn seed into a stream; a pure function of the seed.
pub struct Stream(pub u64);
impl Stream {
    pub fn next(&mut self) -> u64 {
        self.0 = self.0.wrapping_add(0x9E3779B97F4A7C15);
        let mut z = self.0;
        z = (z ^ (z >> 30)).wrapping_mul(0xBF58476D1CE4E5B9);
        z = (z ^ (z >> 27)).wrapping_mul(0x94D049BB133111EB);
        z ^ (z >> 31)
    }
    /// uniform in [0,1)
    pub fn unit(&mut self) -> f64 {
        (self.next() >> 11) as f64 / (1u64 << 53) as f64
    }
    /// uniform in [-1,1)
    pub fn sym(&mut self) -> f64 {
        self.unit() * 2.0 - 1.0
    }
    pub fn below(&mut self, n: u64) -> u64 {
        if n == 0 {
            0
        } else {
            ((self.next() as u128 * n as u128) >> 64) as u64
        }
    }
}

// ---------------------------------------------------------------------------------------------
// number theory helpers (own code; nothing from rustfft)

pub fn mulmod(a: u64, b: u64, m: u64) -> u64 {
    ((a as u128 * b as u128) % m as u128) as u64
}
pub fn powmod(mut b: u64, mut e: u64, m: u64) -> u64 {
    let mut r = 1 % m;
    b %= m;
    while e > 0 {
        if e & 1 == 1 {
            r = mulmod(r, b, m);
        }
        b = mulmod(b, b, m);
        e >>= 1;
    }
    r
}
/// deterministic Miller-Rabin for u64
pub fn is_prime(n: u64) -> bool {
    if n < 2 {
        return false;
    }
    for p in [2u64, 3, 5, 7, 11, 13, 17, 19, 23, 29, 31, 37] {
        if n % p == 0 {
            return n == p;
        }
    }
    let mut d = n - 1;
    let mut s = 0;
    while d % 2 == 0 {
        d /= 2;
        s += 1;
    }
    'outer: for a in [2u64, 3, 5, 7, 11, 13, 17, 19, 23, 29, 31, 37] {
        let mut x = powmod(a, d, n);
        if x == 1 || x == n - 1 {
            continue;
        }
        for _ in 0..s - 1 {
            x = mulmod(x, x, n);
            if x == n - 1 {
                continue 'outer;
            }
        }
        return false;
    }
    true
}
pub fn factorize(mut n: u64) -> Vec<(u64, u32)> {
    let mut out = vec![];
    let mut p = 2u64;
    while p * p <= n {
        if n % p == 0 {
            let mut c = 0;
            while n % p == 0 {
                n /= p;
                c += 1;
            }
            out.push((p, c));
        }
        p += if p == 2 { 1 } else { 2 };
    }
    if n > 1 {
        out.push((n, 1));
    }
    out
}
pub fn largest_prime_factor(n: u64) -> u64 {
    factorize(n).last().map(|x| x.0).unwrap_or(1)
}
pub fn gcd(a: u64, b: u64) -> u64 {
    if b == 0 {
        a
    } else {
        gcd(b, a % b)
    }
}
pub fn lcm(a: u64, b: u64) -> Option<u64> {
    if a == 0 || b == 0 {
        return Some(0);
    }
    (a / gcd(a, b)).checked_mul(b)
}

// ---------------------------------------------------------------------------------------------
// length families

pub struct Families {
    pub nmax: usize,
    pub fams: Vec<(&'static str, Vec<usize>)>,
}

const BUTTERFLIES: [usize; 20] = [2, 3, 4, 5, 6, 7, 8, 9, 11, 12, 13, 16, 17, 19, 23, 24, 27, 29, 31, 32];
const AVX_RADIXES: [usize; 11] = [2, 3, 4, 5, 6, 7, 8, 9, 11, 12, 16];

impl Families {
    /// All families are *constructed* (no rejection sampling at draw time): each is a sorted list of
    /// every member up to `nmax`, and a draw maps a random word monotonically onto the list.
    pub fn new(nmax: usize) -> Families {
        let nmax = nmax.max(64);
        // sieve
        let mut sieve = vec![true; nmax + 1];
        sieve[0] = false;
        sieve[1] = false;
        let mut i = 2;
        while i * i <= nmax {
            if sieve[i] {
                let mut j = i * i;
                while j <= nmax {
                    sieve[j] = false;
                    j += i;
                }
            }
            i += 1;
        }
        // largest prime factor table
        let mut lpf = vec![1u32; nmax + 1];
        for p in 2..=nmax {
            if sieve[p] {
                let mut j = p;
                while j <= nmax {
                    lpf[j] = p as u32;
                    j += p;
                }
            }
        }
        let primes: Vec<usize> = (2..=nmax).filter(|&p| sieve[p]).collect();
        let mut fams: Vec<(&'static str, Vec<usize>)> = vec![];
        // primes by what the planners do with them
        fams.push(("prime_rader_23smooth", primes.iter().copied().filter(|&p| p > 32 && lpf[p - 1] <= 23).collect()));
        fams.push(("prime_rader_11smooth", primes.iter().copied().filter(|&p| p > 32 && lpf[p - 1] <= 11).collect()));
        fams.push(("prime_bluestein", primes.iter().copied().filter(|&p| p > 32 && lpf[p - 1] > 23).collect()));
        fams.push(("prime_cunningham", primes.iter().copied().filter(|&p| p > 5 && (p - 1) % 2 == 0 && sieve[(p - 1) / 2]).collect()));
        fams.push(("prime_any", primes.clone()));
        // prime powers
        let mut v = vec![];
        for &p in primes.iter().take_while(|&&p| p * p <= nmax) {
            let mut q = p * p;
            while q <= nmax {
                v.push(q);
                match q.checked_mul(p) {
                    Some(x) => q = x,
                    None => break,
                }
            }
        }
        v.sort();
        fams.push(("prime_power", v));
        // semiprimes of two largish primes
        let mut v = vec![];
        let big: Vec<usize> = primes.iter().copied().filter(|&p| p > 32).collect();
        for (i, &p) in big.iter().enumerate() {
            if p * p > nmax {
                break;
            }
            // limit density: a handful of partners per p
            for &q in big[i..].iter().take(24) {
                if p * q <= nmax {
                    v.push(p * q);
                }
            }
            // and the largest partner
            if let Some(&q) = big.iter().rev().find(|&&q| q >= p && p * q <= nmax) {
                v.push(p * q);
            }
        }
        v.sort();
        v.dedup();
        fams.push(("semiprime_large", v));
        // 11-smooth
        fams.push(("smooth11", (2..=nmax).filter(|&n| lpf[n] <= 11).collect()));
        // 2^a 3^b
        fams.push(("smooth3", (2..=nmax).filter(|&n| lpf[n] <= 3).collect()));
        // powers of two and neighbours
        let mut v = vec![];
        let mut q = 2usize;
        while q <= nmax {
            for d in [q - 1, q, q + 1] {
                if d >= 2 && d <= nmax {
                    v.push(d);
                }
            }
            if q * 3 <= nmax {
                v.push(q * 3);
            }
            q *= 2;
        }
        v.sort();
        v.dedup();
        fams.push(("pow2_neighbours", v));
        // butterfly x butterfly and thresholds of the planners
        let mut v = vec![];
        for &a in &BUTTERFLIES {
            for &b in &BUTTERFLIES {
                if a * b <= nmax {
                    v.push(a * b);
                }
            }
        }
        for t in [31 * 31, 31 * 32, 32 * 32, 33 * 33, 992, 993, 1024, 1023, 1025, 961, 1089, 64, 128, 256, 512] {
            for d in [t - 1, t, t + 1] {
                if d <= nmax {
                    v.push(d);
                }
            }
        }
        v.sort();
        v.dedup();
        fams.push(("butterfly_products_thresholds", v));
        // AVX rows: radix * m for every radix, with m covering every residue mod 4; m itself awkward
        let mut v = vec![];
        for &r in &AVX_RADIXES {
            let mut m = 1;
            while r * m <= nmax && m <= 400 {
                v.push(r * m);
                m += 1;
            }
            // larger rows with all residues
            let mut base = 500;
            while r * base <= nmax {
                for res in 0..4 {
                    if r * (base + res) <= nmax {
                        v.push(r * (base + res));
                    }
                }
                base = base * 3 + 1;
            }
        }
        v.sort();
        v.dedup();
        fams.push(("avx_rows", v));
        // small smooth cofactor times a big prime (nested Rader/Bluestein inside mixed radix)
        let mut v = vec![];
        for &c in &[2usize, 3, 4, 5, 6, 8, 9, 12, 16, 27, 32, 64, 128] {
            for &p in big.iter() {
                if c * p > nmax {
                    break;
                }
                // thin out
                if (p / 2) % 7 == 0 || p < 300 {
                    v.push(c * p);
                }
            }
        }
        v.sort();
        v.dedup();
        fams.push(("smooth_times_bigprime", v));
        // everything
        fams.push(("any", (2..=nmax).collect()));
        fams.retain(|f| !f.1.is_empty());
        Families { nmax, fams }
    }
    pub fn count(&self) -> usize {
        self.fams.len()
    }
    /// monotone pick: smaller `r` gives a smaller member, smaller `fam` a simpler family
    pub fn pick(&self, fam: usize, r: u64) -> (usize, &'static str) {
        let (name, list) = &self.fams[fam % self.fams.len()];
        let idx = ((r as u128 * list.len() as u128) >> 64) as usize;
        (list[idx], name)
    }
    /// like `pick` but biased towards small members (r is squared on the unit interval)
    pub fn pick_biased(&self, fam: usize, r: u64) -> (usize, &'static str) {
        let u = (r >> 11) as f64 / (1u64 << 53) as f64;
        let (name, list) = &self.fams[fam % self.fams.len()];
        let idx = ((u * u) * list.len() as f64) as usize;
        (list[idx.min(list.len() - 1)], name)
    }
    /// pick restricted to members <= cap (monotone)
    pub fn pick_capped(&self, fam: usize, r: u64, cap: usize) -> (usize, &'static str) {
        let (name, list) = &self.fams[fam % self.fams.len()];
        let cnt = list.partition_point(|&x| x <= cap).max(1);
        let idx = ((r as u128 * cnt as u128) >> 64) as usize;
        (list[idx], name)
    }
}

/// Landmark lengths: where size-triggered behaviour (index width, digit-reversal depth, layer counts, cache-blocking
/// thresholds, base tables keyed by exponents) first changes. `top` = largest power-of-two exponent.
pub fn landmark_lengths(top: u32, huge: bool) -> Vec<usize> {
    let mut marks: Vec<usize> = vec![];
    for k in 13..=top {
        marks.push(1 << k);
        if k >= 14 {
            marks.push(3 << (k - 2));
            marks.push(5 << (k - 3));
        }
    }
    marks.extend([65537usize, 65539, 65543, 65551, 2 * 65539, 3 * 65537, 19683, 59049, 78125, 117649, 14641, 161051, 157464, 131071, 131101, 99991, 100003, 118098, 2 * 65687]);
    if top >= 19 {
        marks.extend([262147usize, 262501, 524309, 177147, 531441, 390625, 823543, 787320, 2 * 262147, 196830, 354294, 655360]);
    }
    if top >= 20 {
        marks.extend([1048583usize, 1771561, 1594323, 1953125]);
    }
    if huge {
        // beyond 2^21: one of each factor type (2^k*5, 2^k*21, semiprime of two ~1450 primes, 2*3^5*5^4*7, 3*10^6, prime, 2*prime)
        marks.extend([5usize << 19, 21 << 17, 1297 * 1621, 2_126_250, 3_000_000, 2_097_169, 2 * 1_048_583, 1 << 22]);
    }
    marks.sort();
    marks.dedup();
    marks
}

/// classify a length for histograms (independent of rustfft)
pub fn classify_len(n: usize) -> &'static str {
    if n < 2 {
        return "trivial";
    }
    if n <= 32 && BUTTERFLIES.contains(&n) {
        return "butterfly";
    }
    if n.is_power_of_two() {
        return "pow2";
    }
    if is_prime(n as u64) {
        let l = largest_prime_factor(n as u64 - 1);
        return if l <= 11 {
            "prime(p-1 11-smooth)"
        } else if l <= 23 {
            "prime(p-1 23-smooth)"
        } else {
            "prime(bluestein)"
        };
    }
    let l = largest_prime_factor(n as u64);
    if l <= 3 {
        "2^a3^b"
    } else if l <= 7 {
        "7-smooth"
    } else if l <= 11 {
        "11-smooth"
    } else if l <= 31 {
        "31-smooth"
    } else {
        "composite(big prime factor)"
    }
}

// ---------------------------------------------------------------------------------------------
// input vectors

pub const INPUT_FAMILIES: [&str; 18] = [
    "impulse", "uniform", "positive", "gaussish", "const", "tone", "tone_off", "alt", "spikes", "real", "imag",
    "conjsym", "wide", "scaled_big", "scaled_small", "ramp", "periodic", "silence_mix",
];

fn chunk_values(family: &str, seed: u64, n: usize, wide_exp: i32, scale_exp: i32) -> Vec<(f64, f64)> {
    let mut s = Stream(splitmix(seed ^ hash_str(family)));
    let mut v = vec![(0.0, 0.0); n];
    if n == 0 {
        return v;
    }
    match family {
        "impulse" => {
            v[(seed % n as u64) as usize] = (1.0, 0.0);
        }
        "impulse_c" => {
            v[(seed % n as u64) as usize] = (s.sym(), s.sym() + 1.5);
        }
        "uniform" => {
            for e in v.iter_mut() {
                *e = (s.sym(), s.sym());
            }
        }
        "positive" => {
            for e in v.iter_mut() {
                *e = (s.unit(), s.unit());
            }
        }
        "gaussish" => {
            for e in v.iter_mut() {
                *e = (s.sym() + s.sym() + s.sym() + s.sym(), s.sym() + s.sym() + s.sym() + s.sym());
            }
        }
        "const" => {
            let c = (s.sym() + 1.25, s.sym() - 1.25);
            for e in v.iter_mut() {
                *e = c;
            }
        }
        "tone" | "tone_off" => {
            let f = (s.below(n as u64)) as f64 + if family == "tone_off" { 0.25 + 0.5 * s.unit() } else { 0.0 };
            let amp = 0.5 + s.unit();
            let ph = s.unit() * 6.283185307179586;
            for (j, e) in v.iter_mut().enumerate() {
                // reduce j*f mod n in floating point well enough for an *input* (accuracy is irrelevant here)
                let a = ph + 6.283185307179586 * ((j as f64 * f) % n as f64) / n as f64;
                *e = (amp * a.cos(), amp * a.sin());
            }
        }
        "alt" => {
            let c = (s.sym() + 1.5, s.sym());
            for (j, e) in v.iter_mut().enumerate() {
                *e = if j % 2 == 0 { c } else { (-c.0, -c.1) };
            }
        }
        "spikes" => {
            let k = 1 + s.below(8.min(n as u64));
            for _ in 0..k {
                let pos = s.below(n as u64) as usize;
                v[pos] = (s.sym() * 4.0, s.sym() * 4.0);
            }
            if v.iter().all(|e| e.0 == 0.0 && e.1 == 0.0) {
                v[0] = (1.0, -1.0);
            }
        }
        "real" => {
            for e in v.iter_mut() {
                *e = (s.sym(), 0.0);
            }
        }
        "imag" => {
            for e in v.iter_mut() {
                *e = (0.0, s.sym());
            }
        }
        "conjsym" => {
            for j in 0..=n / 2 {
                let re = s.sym();
                let im = if j == 0 || 2 * j == n { 0.0 } else { s.sym() };
                v[j] = (re, im);
                if j != 0 {
                    v[n - j] = (re, -im);
                }
            }
        }
        "wide" => {
            for e in v.iter_mut() {
                let ea = s.below((2 * wide_exp + 1) as u64) as i32 - wide_exp;
                let eb = s.below((2 * wide_exp + 1) as u64) as i32 - wide_exp;
                *e = (s.sym() * (ea as f64).exp2(), s.sym() * (eb as f64).exp2());
            }
        }
        "scaled_big" => {
            let sc = (scale_exp as f64).exp2();
            for e in v.iter_mut() {
                *e = (s.sym() * sc, s.sym() * sc);
            }
        }
        "scaled_small" => {
            let sc = (-(scale_exp as f64)).exp2();
            for e in v.iter_mut() {
                *e = (s.sym() * sc, s.sym() * sc);
            }
        }
        "ramp" => {
            for (j, e) in v.iter_mut().enumerate() {
                *e = (j as f64 / n as f64 - 0.5, 1.0 - (j as f64 / n as f64));
            }
        }
        "periodic" => {
            // exactly periodic with a proper divisor q of n as period: whole rows of a radix step cancel to exact zeros
            let divs: Vec<usize> = (1..=n).filter(|d| n % d == 0 && *d < n).collect();
            let q = if divs.is_empty() { n } else { divs[s.below(divs.len() as u64) as usize] };
            let base: Vec<(f64, f64)> = (0..q).map(|_| (s.sym(), s.sym())).collect();
            for (j, e) in v.iter_mut().enumerate() {
                *e = base[j % q];
            }
        }
        "zero" => {}
        other => panic!("unknown input family {}", other),
    }
    v
}

/// Builds the input of a case: `chunks` consecutive chunks of length `n`.
/// Domain restriction (stated in DESIGN.md 2.3): all values finite; magnitudes chosen so that n*max|x|
/// stays far below overflow and the L2 norm far above the subnormal range for the element type.
pub fn make_input<T: Real>(spec: &InputSpec, n: usize, chunks: usize) -> Vec<Complex<T>> {
    if let Some(ex) = &spec.explicit {
        let mut out: Vec<Complex<T>> = ex.iter().map(|&(re, im)| Complex { re: T::of_f64(re), im: T::of_f64(im) }).collect();
        out.resize(n * chunks, Complex { re: T::of_f64(0.0), im: T::of_f64(0.0) });
        return out;
    }
    // per-type exponent budgets: f32 -> +-20 per element, 2^40 global; f64 -> +-200, 2^400
    let (wide_exp, scale_exp) = if T::MAX_EXP < 200 { (20, 40) } else { (200, 400) };
    let mut out = Vec::with_capacity(n * chunks);
    if let Some(e) = xscale_exp::<T>(&spec.family, spec.seed, n) {
        // an ordinary dense vector times an exact power of two near the bottom / the top of the NORMAL range
        let base = make_input::<T>(&xscale_base(spec), n, chunks);
        let sc = (e as f64).exp2();
        return base.iter().map(|c| Complex { re: T::of_f64(c.re.to_f64() * sc), im: T::of_f64(c.im.to_f64() * sc) }).collect();
    }
    for c in 0..chunks {
        if spec.family == "silence_mix" {
            // alternating silent (all-zero) and dense chunks; which parity is silent depends on the seed
            let silent = (spec.seed as usize + c) % 2 == 1;
            let vals = if silent { chunk_values("zero", 0, n, wide_exp, scale_exp) } else { chunk_values("uniform", mix(spec.seed, c as u64), n, wide_exp, scale_exp) };
            for (re, im) in vals {
                out.push(Complex { re: T::of_f64(re), im: T::of_f64(im) });
            }
            continue;
        }
        let seed = if spec.family == "impulse" || spec.family == "impulse_c" {
            // chunk c carries the impulse at position seed + c (mod n) so that chunks differ
            spec.seed.wrapping_add(c as u64)
        } else {
            mix(spec.seed, c as u64)
        };
        for (re, im) in chunk_values(&spec.family, seed, n, wide_exp, scale_exp) {
            out.push(Complex { re: T::of_f64(re), im: T::of_f64(im) });
        }
    }
    out
}

/// Extreme-scale families ("xscale_tiny", "xscale_huge"): the power-of-two exponent applied to an ordinary dense vector.
/// tiny: far below 1 but with every intermediate product still a NORMAL number (f32: 2^-60..2^-80, f64: 2^-300..2^-900);
/// huge: MAX_EXP - 24 - 1.5*log2(n), i.e. 2^24 of head-room above the largest intermediate (n^1.5 * max|x|) any of the
/// algorithms forms. The numeric check compares (output * 2^-e) with the reference DFT of the unscaled vector, which is
/// exact (power-of-two scaling) and keeps every norm in the harness inside the f64 range.
pub fn xscale_exp<T: Real>(family: &str, seed: u64, n: usize) -> Option<i32> {
    let f32like = T::MAX_EXP < 200;
    match family {
        "xscale_tiny" => Some(if f32like { [-60, -72, -80][(seed % 3) as usize] } else { [-300, -600, -900][(seed % 3) as usize] }),
        "xscale_huge" => {
            let l = (1.5 * (n.max(2) as f64).log2()).ceil() as i32;
            Some(T::MAX_EXP - 24 - l - (seed % 3) as i32 * 10)
        }
        _ => None,
    }
}
/// the unscaled vector behind an extreme-scale input
pub fn xscale_base(spec: &InputSpec) -> InputSpec {
    InputSpec::fam(if spec.seed % 2 == 0 { "gaussish" } else { "uniform" }, spec.seed)
}

pub fn to_pairs<T: Real>(v: &[Complex<T>]) -> Vec<(f64, f64)> {
    v.iter().map(|c| (c.re.to_f64(), c.im.to_f64())).collect()
}

pub fn is_zero_vec<T: Real>(v: &[Complex<T>]) -> bool {
    v.iter().all(|c| c.re.to_f64() == 0.0 && c.im.to_f64() == 0.0)
}
