//! Checks over foreign element types: exact finite-field DFT (C01/C12/C14), operation counting (C05),
//! double-double / tagged / newtype elements (C14), plan structure and scratch size (C05).
use crate::checks::truncate;
use crate::exec::*;
use crate::gen::{mix, Stream};
use crate::gfp::{self, Fp, C2};
use crate::numtypes::*;
use crate::plantext;
use crate::types::*;
use rustfft::num_complex::Complex;
use rustfft::{Fft, FftNum, FftPlannerAvx, FftPlannerSse};
use std::sync::Arc;

/// call through an entry point with caller-made zero values (generic element type)
fn transform_g<T: FftNum>(fft: &dyn Fft<T>, entry: Entry, input: &[Complex<T>], zero: Complex<T>) -> Result<Vec<Complex<T>>, PanicInfo> {
    let mut data = input.to_vec();
    let mut out = if result_in_out(entry) { vec![zero; input.len()] } else { vec![] };
    let mut scratch = vec![zero; adv_scratch(fft, entry)];
    catch(|| raw_call(fft, entry, &mut data, &mut out, &mut scratch))?;
    Ok(if result_in_out(entry) { out } else { data })
}

/// obtain a transform over a foreign element type (Auto or Scalar planner, or a constructor tree)
fn obtain_g<T: FftNum>(case: &Case) -> Result<Arc<dyn Fft<T>>, Outcome> {
    match &case.source {
        Source::Tree(t) => crate::trees::build::<T>(t, case.dir),
        _ => {
            let mut pl = match AnyPlanner::<T>::new(case.planner) {
                Some(p) => p,
                None => return Err(Outcome::skip("planner unavailable")),
            };
            // p[1] = 1: the opposite direction is planned first on the same planner (cache interaction)
            let both = case.pget(1) == 1;
            match catch(|| {
                if both {
                    let _ = pl.plan(case.n, case.dir.other());
                }
                pl.plan(case.n, case.dir)
            }) {
                Ok(f) => Ok(f),
                Err(p) => Err(Outcome::bad(format!("planning n={} for a foreign element type panicked: {} @ {}", case.n, p.msg, p.loc))),
            }
        }
    }
}

/// twiddle moduli the portable plan of length n uses, read from the scalar planner's recipe (hook H2),
/// completed by a planner-independent superset when the text is not understood
pub fn plan_moduli(n: usize) -> Vec<u64> {
    let mut out = vec![n.max(1) as u64, 8];
    let text = rustfft::FftPlannerScalar::<f64>::new().verif_recipe(n);
    if let Some(info) = plantext::analyse(&text) {
        out.extend(info.node_lens.iter().copied().filter(|&x| x > 0));
        for (l, inner) in &info.bluestein {
            out.push(2 * l);
            out.push(*inner);
        }
        for r in &info.raders {
            out.push(*r);
            out.push(r - 1);
        }
    } else {
        // fallback: divisors' primes -> q-1, 2q, and 2^a 3^b candidates
        for (q, _) in crate::gen::factorize(n as u64) {
            if q > 32 {
                out.push(q - 1);
                out.push(2 * q);
                let m = (2 * q - 1).next_power_of_two();
                out.push(m);
                out.push(m / 4 * 3);
            }
        }
    }
    out.sort();
    out.dedup();
    out
}

fn fp_panic_outcome(p: &PanicInfo, what: &str) -> Outcome {
    match gfp::classify_msg(&p.msg) {
        "undecodable" => Outcome::skip("exact oracle: constant outside the known cyclotomic grid (not judged)"),
        "ambiguous" => Outcome::skip("exact oracle: ambiguous constant (not judged)"),
        "forbidden" => Outcome::bad(format!("portable code used a non-ring operation on the element type during {}: {}", what, p.msg)),
        "fabricated" => Outcome::bad(format!(
            "portable code handed the element type a value that none of its operations produced ({}): it fabricates elements from raw bytes instead of using zero()/one()/from_*/arithmetic: {}",
            what, p.msg
        )),
        _ => Outcome::bad(format!("{} panicked for the prime-field element type: {} @ {}", what, p.msg, p.loc)),
    }
}

// ---------------------------------------------------------------------------------------------
// kind "exact": p[0] = 1 -> also require zero divisions during processing and SIMD planners declining (C14)

pub fn k_exact(case: &Case) -> Outcome {
    let n = case.n;
    if n == 0 {
        return Outcome::skip("n=0");
    }
    let strict = case.pget(0) == 1;
    // SIMD planners must decline a foreign type
    if strict {
        if FftPlannerAvx::<Fp>::new().is_ok() {
            return Outcome::bad("FftPlannerAvx::new() accepted a foreign element type (prime field)");
        }
        if FftPlannerSse::<Fp>::new().is_ok() {
            return Outcome::bad("FftPlannerSse::new() accepted a foreign element type (prime field)");
        }
    }
    let moduli = match &case.source {
        Source::Tree(t) => {
            let mut m = vec![];
            crate::trees::moduli(t, &mut m);
            let mut leaves = vec![];
            crate::trees::planned_leaves(t, &mut leaves);
            for (_, ln) in leaves {
                m.extend(plan_moduli(ln));
            }
            m.sort();
            m.dedup();
            m
        }
        _ => plan_moduli(n),
    };
    let (p, _l) = match gfp::install(&moduli, mix(case.input.seed, n as u64)) {
        Ok(x) => x,
        Err(gfp::FieldError::TooLarge(why)) => return Outcome::skip(format!("exact oracle out of reach: {}", truncate(&why, 60))),
    };
    let fft = match catch(|| obtain_g::<Fp>(case)) {
        Ok(Ok(f)) => f,
        Ok(Err(o)) => {
            // a constructor panic carrying one of our markers is not a verdict on rustfft
            if let Outcome::Violated { reason } = &o {
                if reason.contains("VF-UNDECODABLE") {
                    return Outcome::skip("exact oracle: constant outside the known cyclotomic grid (not judged)");
                }
                if reason.contains("VF-AMBIGUOUS") {
                    return Outcome::skip("exact oracle: ambiguous constant (not judged)");
                }
            }
            return o;
        }
        Err(pn) => return fp_panic_outcome(&pn, "construction"),
    };
    if fft.len() != n {
        return Outcome::bad(format!("transform reports len()={} for n={}", fft.len(), n));
    }
    if Dir::from_fft(fft.fft_direction()) != case.dir {
        return Outcome::bad(format!("transform reports direction {:?} for requested {:?} (n={})", fft.fft_direction(), case.dir, n));
    }
    let ctor_divs = gfp::divs();
    let inverse = case.dir == Dir::Inv;
    let zero = Complex { re: Fp::new(0), im: Fp::new(0) };
    let mut st = Stream(mix(case.input.seed, 0xabc));
    let k = case.chunks.max(1);
    // inputs: whole basis when small, plus random vectors
    let mut vectors: Vec<Vec<C2>> = vec![];
    if n <= 64 && case.input.family == "whole-basis" {
        for j in 0..n {
            let mut v = vec![C2 { re: 0, im: 0 }; n];
            v[j] = C2 { re: 1, im: 0 };
            vectors.push(v);
        }
    }
    for _ in 0..2 {
        vectors.push((0..n).map(|_| C2 { re: st.below(p), im: st.below(p) }).collect());
    }
    let mut checked = 0u64;
    for (vi, v) in vectors.iter().enumerate() {
        // k chunks: chunk c is v rotated by c (all share one expected result up to rotation; recompute per chunk)
        let mut input: Vec<Complex<Fp>> = Vec::with_capacity(n * k);
        let mut chunks_c2: Vec<Vec<C2>> = vec![];
        for c in 0..k {
            let ch: Vec<C2> = (0..n).map(|j| v[(j + c) % n]).collect();
            input.extend(ch.iter().map(|e| Complex { re: Fp::new(e.re), im: Fp::new(e.im) }));
            chunks_c2.push(ch);
        }
        let before = gfp::divs();
        let out = match transform_g::<Fp>(&*fft, case.entry, &input, zero) {
            Ok(o) => o,
            Err(pn) => return fp_panic_outcome(&pn, "processing"),
        };
        if strict && gfp::divs() != before {
            return Outcome::bad(format!("portable code performed {} division(s) on the element type while processing (only ring operations are allowed there)", gfp::divs() - before));
        }
        for (c, ch) in chunks_c2.iter().enumerate() {
            // reading the residues validates every output word (a fabricated word panics with VF-FABRICATED)
            let got: Vec<C2> = match catch(|| out[c * n..(c + 1) * n].iter().map(|e| C2 { re: e.re.val(), im: e.im.val() }).collect::<Vec<C2>>()) {
                Ok(g) => g,
                Err(pn) => return fp_panic_outcome(&pn, "reading the output"),
            };
            let ok = if n <= 1024 {
                match gfp::exact_dft(ch, inverse) {
                    Some(want) => {
                        if let Some(kk) = (0..n).find(|&kk| want[kk] != got[kk]) {
                            return Outcome::bad(format!(
                                "exact finite-field DFT mismatch (p={}): output index {} of {} is ({},{}) but sum_j x_j*omega^(-+jk) = ({},{}) [vector #{}, chunk {}]",
                                p, kk, n, got[kk].re, got[kk].im, want[kk].re, want[kk].im, vi, c
                            ));
                        }
                        true
                    }
                    None => return Outcome::skip("exact oracle: n does not divide L"),
                }
            } else {
                match gfp::functional_check(ch, &got, inverse, mix(case.input.seed, vi as u64)) {
                    Some(b) => b,
                    None => return Outcome::skip("exact oracle: functional check unavailable"),
                }
            };
            if !ok {
                return Outcome::bad(format!(
                    "exact finite-field DFT mismatch (p={}): random linear functional of the output disagrees with the DFT of the input, n={} [vector #{}, chunk {}]",
                    p, n, vi, c
                ));
            }
            checked += 1;
        }
    }
    let tol = gfp::tolerance_decoded();
    let mut o = Outcome::held(n >= 2)
        .label(format!("len:{}", crate::gen::classify_len(n)))
        .label(format!("entry:{:?}", case.entry))
        .count("exact vectors checked", checked)
        .count("constructor divisions (1/m constants)", ctor_divs);
    if tol > 0 {
        o = o.count("constants decoded by tolerance fallback", tol);
    }
    if gfp::literal_decoded() > 0 {
        o = o.count("non-twiddle constants taken literally (exact dyadic value)", gfp::literal_decoded());
    }
    o
}

// ---------------------------------------------------------------------------------------------
// kind "ops" (C05): exact, input-independent operation counts of the portable planned transform

pub fn k_ops(case: &Case) -> Outcome {
    // p[0] = 1: the 256-byte counting element
    if case.pget(0) == 1 {
        ops_generic::<CntBig>(case)
    } else {
        ops_generic::<Cnt>(case)
    }
}
fn ops_generic<C: Counting>(case: &Case) -> Outcome {
    let n = case.n;
    if n < 2 {
        return Outcome::skip("n<2");
    }
    if FftPlannerAvx::<C>::new().is_ok() || FftPlannerSse::<C>::new().is_ok() {
        return Outcome::bad("a SIMD planner accepted the operation-counting element type");
    }
    let fft = match obtain_g::<C>(case) {
        Ok(f) => f,
        Err(o) => return o,
    };
    let zero = Complex { re: C::mk(0.0), im: C::mk(0.0) };
    let mut st = Stream(mix(case.input.seed, n as u64));
    let inputs: [Vec<Complex<C>>; 3] = [
        vec![zero; n],
        (0..n).map(|_| Complex { re: C::mk(st.sym()), im: C::mk(st.sym()) }).collect(),
        (0..n)
            .map(|j| {
                let e = if j % 3 == 0 { 1e150 } else if j % 3 == 1 { 1e-150 } else { -3.0 };
                Complex { re: C::mk(e), im: C::mk(-e * 0.5) }
            })
            .collect(),
    ];
    let limit = 64.0 * n as f64 * (n as f64).log2();
    let mut first: Option<[u64; 6]> = None;
    // big lengths / fat elements: two inputs are enough to see input dependence
    let take = if n > 1 << 15 || case.pget(0) == 1 { 2 } else { 3 };
    for inp in inputs.iter().take(take) {
        let mut data = inp.clone();
        let mut out = if result_in_out(case.entry) { vec![zero; n] } else { vec![] };
        let mut scratch = vec![zero; adv_scratch(&*fft, case.entry)];
        ops_reset();
        if let Err(p) = catch(|| raw_call(&*fft, case.entry, &mut data, &mut out, &mut scratch)) {
            return Outcome::bad(format!("well-shaped call panicked: {} @ {}", p.msg, p.loc));
        }
        let c = ops_get();
        match first {
            None => first = Some(c),
            Some(f) => {
                if f != c {
                    return Outcome::bad(format!(
                        "operation count depends on the input values: (add,sub,mul,neg,div,other) = {:?} on one input and {:?} on another (n={}, {:?})",
                        f, c, n, case.entry
                    ));
                }
            }
        }
    }
    let c = first.unwrap();
    let ops = (c[0] + c[1] + c[2]) as f64;
    if ops > limit {
        return Outcome::bad(format!(
            "portable transform of length {} ({}) performs {} additions/subtractions/multiplications per chunk via {:?}, more than 64*n*log2(n) = {:.0}",
            n, C::NAME, ops, case.entry, limit
        ));
    }
    Outcome::held(true)
        .ratio(format!("ops/(64 n log2 n) [{}]", C::NAME), ops / limit)
        .label(format!("len:{}", crate::gen::classify_len(n)))
        .label(format!("entry:{:?}", case.entry))
}

// ---------------------------------------------------------------------------------------------
// kind "structure" (C05): no naive DFT node above 32 in any planner's plan; window p[0]..p[0]+p[1] (stride p[2])
pub fn k_structure(case: &Case) -> Outcome {
    match case.ty {
        Ty::F32 => structure::<f32>(case),
        Ty::F64 => structure::<f64>(case),
    }
}
fn structure<T: Real>(case: &Case) -> Outcome {
    let start = case.pget(0) as usize;
    let count = case.pget(1) as usize;
    let stride = (case.pget(2) as usize).max(1);
    let mut pl = match AnyPlanner::<T>::new(case.planner) {
        Some(p) => p,
        None => return Outcome::skip(format!("planner {:?} unavailable in this configuration", case.planner)),
    };
    let (mut parsed, mut unparsed) = (0u64, 0u64);
    let mut n = start.max(2);
    for _ in 0..count {
        let text = match catch(|| pl.plan_text(n, case.dir)) {
            Ok(t) => t,
            Err(p) => return Outcome::bad(format!("designing a plan for n={} panicked: {} @ {}", n, p.msg, p.loc)),
        };
        match plantext::analyse(&text) {
            Some(info) => {
                parsed += 1;
                if let Some(k) = info.dft_lens.iter().find(|&&k| k > 32) {
                    return Outcome::bad(format!("plan for n={} contains a naive O(k^2) DFT node of length {} > 32: {}", n, k, truncate(&text, 300)));
                }
            }
            None => unparsed += 1,
        }
        n += stride;
    }
    Outcome::held(true).count("plans inspected for naive nodes", parsed).count("plans with unparsed text (not judged)", unparsed)
}

// ---------------------------------------------------------------------------------------------
// kind "scratchlen" (C05): advertised scratch <= 12n + 64
pub fn k_scratchlen(case: &Case) -> Outcome {
    match case.ty {
        Ty::F32 => scratchlen::<f32>(case),
        Ty::F64 => scratchlen::<f64>(case),
    }
}
fn scratchlen<T: Real>(case: &Case) -> Outcome {
    // planned here (not through the shared transform cache) so that the construction hook sees exactly this request
    let mut pl = match AnyPlanner::<T>::new(case.planner) {
        Some(p) => p,
        None => return Outcome::skip(format!("planner {:?} unavailable in this configuration", case.planner)),
    };
    let _ = rustfft::verif_hooks::take_dft_lens();
    let fft = match catch(|| pl.plan(case.n, case.dir)) {
        Ok(f) => f,
        Err(p) => return Outcome::bad(format!("planning n={} panicked: {} @ {}", case.n, p.msg, p.loc)),
    };
    let n = case.n;
    // structural clause on what was BUILT (hook H3 records every naive `Dft` constructed on this thread), not on the reported plan
    let built = rustfft::verif_hooks::take_dft_lens();
    if let Some(k) = built.iter().copied().filter(|&k| k > 32).max() {
        return Outcome::bad(format!(
            "building the {:?} plan for n={} ({}) constructed a naive O(k^2) DFT of length {} > 32 (the reported plan text may not show it)",
            case.planner,
            n,
            T::NAME,
            k
        ));
    }
    let lens = [fft.get_inplace_scratch_len(), fft.get_outofplace_scratch_len(), fft.get_immutable_scratch_len()];
    let limit = 12 * n + 64;
    for (i, l) in lens.iter().enumerate() {
        if *l > limit {
            return Outcome::bad(format!("advertised {} scratch length {} exceeds 12n+64 = {} for n={}", ["in-place", "out-of-place", "immutable"][i], l, limit, n));
        }
    }
    let worst = *lens.iter().max().unwrap() as f64 / limit as f64;
    Outcome::held(n >= 2).ratio(format!("scratch/(12n+64) {:?}", case.planner), worst).count("plans built with the naive-DFT construction hook armed", 1)
}

// ---------------------------------------------------------------------------------------------
// kind "altnum" (C14): p[0] = 0 double-double, 1 tagged wide element, 2 repr(transparent) f32 newtype

pub fn k_altnum(case: &Case) -> Outcome {
    match case.pget(0) {
        0 => alt_dd(case),
        1 => alt_wide(case),
        _ => alt_newf32(case),
    }
}

fn gen_pairs(case: &Case) -> Vec<(f64, f64)> {
    crate::gen::to_pairs(&crate::gen::make_input::<f64>(&case.input, case.n, case.chunks.max(1)))
}

fn alt_dd(case: &Case) -> Outcome {
    use crate::dd::DD;
    let n = case.n;
    if n == 0 {
        return Outcome::skip("n=0");
    }
    if FftPlannerAvx::<DDn>::new().is_ok() || FftPlannerSse::<DDn>::new().is_ok() {
        return Outcome::bad("a SIMD planner accepted the double-double element type");
    }
    let fft = match obtain_g::<DDn>(case) {
        Ok(f) => f,
        Err(o) => return o,
    };
    let pairs = gen_pairs(case);
    let input: Vec<Complex<DDn>> = pairs.iter().map(|&(a, b)| Complex { re: DDn(DD::from_f64(a)), im: DDn(DD::from_f64(b)) }).collect();
    let zero = Complex { re: DDn(DD::ZERO), im: DDn(DD::ZERO) };
    let out = match transform_g::<DDn>(&*fft, case.entry, &input, zero) {
        Ok(o) => o,
        Err(p) => return Outcome::bad(format!("well-shaped call panicked (double-double elements): {} @ {}", p.msg, p.loc)),
    };
    let b = bound(n, f64::EPSILON);
    let mut worst = 0.0f64;
    for (ci, ch) in pairs.chunks(n).enumerate() {
        if ch.iter().all(|e| *e == (0.0, 0.0)) {
            continue;
        }
        let reference = crate::refdft::reference(ch, case.dir, crate::refdft::Prec::DD);
        let got: Vec<crate::dd::CDD> = out[ci * n..(ci + 1) * n].iter().map(|c| crate::dd::CDD { re: c.re.0, im: c.im.0 }).collect();
        let e = crate::refdft::rel_l2_dd(&got, &reference);
        if !(e <= b) {
            return Outcome::bad(format!("double-double instantiation: relL2 error {:.3e} > B(n,f64) = {:.3e} (n={}, {:?})", e, b, n, case.entry));
        }
        worst = worst.max(e / b);
    }
    Outcome::held(n >= 2).ratio("DD relL2/B(f64)".to_string(), worst).label(format!("len:{}", crate::gen::classify_len(n))).label("type:double-double")
}

fn alt_wide(case: &Case) -> Outcome {
    let n = case.n;
    if n == 0 {
        return Outcome::skip("n=0");
    }
    if FftPlannerAvx::<Wide>::new().is_ok() || FftPlannerSse::<Wide>::new().is_ok() {
        return Outcome::bad("a SIMD planner accepted the 16-byte tagged element type");
    }
    let fft = match obtain_g::<Wide>(case) {
        Ok(f) => f,
        Err(o) => return o,
    };
    let pairs = gen_pairs(case);
    let input: Vec<Complex<Wide>> = pairs.iter().map(|&(a, b)| Complex { re: Wide { v: a, tag: TAG }, im: Wide { v: b, tag: TAG } }).collect();
    let zero = Complex { re: Wide { v: 0.0, tag: TAG }, im: Wide { v: 0.0, tag: TAG } };
    let out = match transform_g::<Wide>(&*fft, case.entry, &input, zero) {
        Ok(o) => o,
        Err(p) => return Outcome::bad(format!("well-shaped call panicked (tagged wide elements): {} @ {}", p.msg, p.loc)),
    };
    if let Some(j) = out.iter().position(|c| c.re.tag != TAG || c.im.tag != TAG) {
        return Outcome::bad(format!("output element {} lost its tag word: the element type was not handled through its own operations (n={})", j, n));
    }
    let b = bound(n, f64::EPSILON);
    for (ci, ch) in pairs.chunks(n).enumerate() {
        if ch.iter().all(|e| *e == (0.0, 0.0)) {
            continue;
        }
        let reference = crate::refdft::reference(ch, case.dir, crate::refdft::Prec::DD);
        let got: Vec<(f64, f64)> = out[ci * n..(ci + 1) * n].iter().map(|c| (c.re.v, c.im.v)).collect();
        let e = crate::refdft::rel_l2(&got, &reference);
        if !(e <= 4.0 * b) {
            return Outcome::bad(format!("tagged wide instantiation: relL2 error {:.3e} > 4*B(n,f64) (n={}, {:?})", e, n, case.entry));
        }
    }
    Outcome::held(n >= 2).label(format!("len:{}", crate::gen::classify_len(n))).label("type:wide-tagged")
}

fn alt_newf32(case: &Case) -> Outcome {
    let n = case.n;
    if n == 0 {
        return Outcome::skip("n=0");
    }
    if FftPlannerAvx::<NewF32>::new().is_ok() {
        return Outcome::bad("FftPlannerAvx accepted a repr(transparent) f32 newtype (it must key on the type, not its layout)");
    }
    if FftPlannerSse::<NewF32>::new().is_ok() {
        return Outcome::bad("FftPlannerSse accepted a repr(transparent) f32 newtype (it must key on the type, not its layout)");
    }
    let fft = match obtain_g::<NewF32>(case) {
        Ok(f) => f,
        Err(o) => return o,
    };
    let pairs32: Vec<(f64, f64)> = gen_pairs(case).iter().map(|&(a, b)| ((a as f32) as f64, (b as f32) as f64)).collect();
    let input: Vec<Complex<NewF32>> = pairs32.iter().map(|&(a, b)| Complex { re: NewF32(a as f32), im: NewF32(b as f32) }).collect();
    let zero = Complex { re: NewF32(0.0), im: NewF32(0.0) };
    let out = match transform_g::<NewF32>(&*fft, case.entry, &input, zero) {
        Ok(o) => o,
        Err(p) => return Outcome::bad(format!("well-shaped call panicked (f32 newtype elements): {} @ {}", p.msg, p.loc)),
    };
    let b = bound(n, f32::EPSILON as f64);
    for (ci, ch) in pairs32.chunks(n).enumerate() {
        if ch.iter().all(|e| *e == (0.0, 0.0)) {
            continue;
        }
        let reference = crate::refdft::reference(ch, case.dir, crate::refdft::Prec::F64);
        let got: Vec<(f64, f64)> = out[ci * n..(ci + 1) * n].iter().map(|c| (c.re.0 as f64, c.im.0 as f64)).collect();
        let e = crate::refdft::rel_l2(&got, &reference);
        if !(e <= 4.0 * b) {
            return Outcome::bad(format!("f32-newtype instantiation: relL2 error {:.3e} > 4*B(n,f32) (n={}, {:?})", e, n, case.entry));
        }
    }
    Outcome::held(n >= 2).label(format!("len:{}", crate::gen::classify_len(n))).label("type:f32-newtype")
}

// ---------------------------------------------------------------------------------------------
// kind "histscratch" (C05): advertised scratch of every transform returned along a planning history <= 12n+64
pub fn k_histscratch(case: &Case) -> Outcome {
    match case.ty {
        Ty::F32 => histscratch::<f32>(case),
        Ty::F64 => histscratch::<f64>(case),
    }
}
fn histscratch<T: Real>(case: &Case) -> Outcome {
    let reqs = match &case.source {
        Source::History { reqs, .. } => reqs.clone(),
        _ => return Outcome::skip("not a history case"),
    };
    let mut pl = match AnyPlanner::<T>::new(case.planner) {
        Some(p) => p,
        None => return Outcome::skip(format!("planner {:?} unavailable in this configuration", case.planner)),
    };
    let mut worst = 0.0f64;
    let _ = rustfft::verif_hooks::take_dft_lens();
    for (i, r) in reqs.iter().enumerate() {
        let f = match catch(|| pl.plan(r.n, r.dir)) {
            Ok(f) => f,
            Err(p) => return Outcome::bad(format!("request #{} (n={}, {:?}) panicked: {} @ {}", i, r.n, r.dir, p.msg, p.loc)),
        };
        if let Some(k) = rustfft::verif_hooks::take_dft_lens().into_iter().filter(|&k| k > 32).max() {
            return Outcome::bad(format!(
                "building the {:?} plan for n={} after {:?} constructed a naive O(k^2) DFT of length {} > 32",
                case.planner,
                r.n,
                reqs[..i].iter().map(|q| (q.n, q.dir)).collect::<Vec<_>>(),
                k
            ));
        }
        let limit = 12 * r.n + 64;
        for (j, l) in [f.get_inplace_scratch_len(), f.get_outofplace_scratch_len(), f.get_immutable_scratch_len()].iter().enumerate() {
            if *l > limit {
                return Outcome::bad(format!(
                    "advertised {} scratch length {} exceeds 12n+64 = {} for n={} when planned after {:?}",
                    ["in-place", "out-of-place", "immutable"][j], l, limit, r.n, reqs[..i].iter().map(|q| (q.n, q.dir)).collect::<Vec<_>>()
                ));
            }
            worst = worst.max(*l as f64 / limit as f64);
        }
    }
    Outcome::held(reqs.len() >= 2).ratio(format!("scratch/(12n+64) after history {:?}", case.planner), worst)
}

// ---------------------------------------------------------------------------------------------
// kind "histops" (C05): the work clause on a planner WITH history. One operation-counting planner is fed a long sequence of
// requests (p[0] = mode, p[1] = upper bound N, p[2] = lower bound); every returned transform is run once and its exact
// operation count must respect 64*n*log2(n) whatever was planned before.
//   mode 0: every n in lo..=N ascending        mode 1: descending
//   mode 2: ascending over primes q, q-1, 2q, 2q+1, (q-1)/2 ... (the lengths whose plans can splice onto each other)
//   mode 3: a seed-driven subsequence of lo..=N in random order, both directions mixed
pub fn k_histops(case: &Case) -> Outcome {
    let mode = case.pget(0);
    let hi = case.pget(1).max(2) as usize;
    let lo = (case.pget(2).max(2) as usize).min(hi);
    if FftPlannerAvx::<Cnt>::new().is_ok() || FftPlannerSse::<Cnt>::new().is_ok() {
        return Outcome::bad("a SIMD planner accepted the operation-counting element type");
    }
    let mut seq: Vec<(usize, Dir)> = vec![];
    match mode {
        0 => seq.extend((lo..=hi).map(|n| (n, case.dir))),
        1 => seq.extend((lo..=hi).rev().map(|n| (n, case.dir))),
        2 => {
            for q in lo..=hi {
                if crate::gen::is_prime(q as u64) {
                    for m in [(q - 1) / 2, q - 1, q, 2 * q, 2 * q + 1] {
                        if m >= 2 && m <= 2 * hi + 1 {
                            seq.push((m, case.dir));
                        }
                    }
                }
            }
        }
        _ => {
            let mut st = Stream(mix(case.input.seed, 0x415));
            let count = (hi - lo + 1).min(1500);
            for _ in 0..count {
                let n = lo + st.below((hi - lo + 1) as u64) as usize;
                let d = if st.below(4) == 0 { case.dir.other() } else { case.dir };
                seq.push((n, d));
                // neighbours are what splices: n+1, 2n, 2n+1 now and then
                match st.below(6) {
                    0 => seq.push((n + 1, d)),
                    1 => seq.push((2 * n, d)),
                    2 => seq.push((2 * n + 1, d)),
                    _ => {}
                }
            }
        }
    }
    let mut pl = match AnyPlanner::<Cnt>::new(case.planner) {
        Some(p) => p,
        None => return Outcome::skip("planner unavailable"),
    };
    let zero = Complex { re: Cnt(0.0), im: Cnt(0.0) };
    let mut st = Stream(mix(case.input.seed, 77));
    let mut worst = 0.0f64;
    let mut worst_n = 0usize;
    let mut measured = 0u64;
    for (i, &(n, dir)) in seq.iter().enumerate() {
        let fft = match catch(|| pl.plan(n, dir)) {
            Ok(f) => f,
            Err(p) => return Outcome::bad(format!("request #{} (n={}, {:?}) of a long planning history panicked: {} @ {}", i, n, dir, p.msg, p.loc)),
        };
        if fft.len() != n {
            return Outcome::bad(format!("request #{} of a long planning history returned len()={} for n={}", i, fft.len(), n));
        }
        let entry = ENTRIES[(i + case.entry as usize) % 4];
        let mut data: Vec<Complex<Cnt>> = (0..n).map(|_| Complex { re: Cnt(st.sym()), im: Cnt(st.sym()) }).collect();
        let mut out = if result_in_out(entry) { vec![zero; n] } else { vec![] };
        let mut scratch = vec![zero; adv_scratch(&*fft, entry)];
        ops_reset();
        if let Err(p) = catch(|| raw_call(&*fft, entry, &mut data, &mut out, &mut scratch)) {
            return Outcome::bad(format!("well-shaped call panicked (n={}, request #{} of a long history): {} @ {}", n, i, p.msg, p.loc));
        }
        let c = ops_get();
        let ops = (c[0] + c[1] + c[2]) as f64;
        let limit = 64.0 * n as f64 * (n as f64).log2();
        if ops > limit {
            let tail: Vec<(usize, Dir)> = seq[i.saturating_sub(6)..i].to_vec();
            return Outcome::bad(format!(
                "portable transform of length {} performs {} additions/subtractions/multiplications per chunk via {:?}, more than 64*n*log2(n) = {:.0}, when planned as request #{} of history mode {} over {}..={} (preceding requests: ... {:?})",
                n, ops, entry, limit, i, mode, lo, hi, tail
            ));
        }
        if ops / limit > worst {
            worst = ops / limit;
            worst_n = n;
        }
        measured += 1;
    }
    Outcome::held(true)
        .ratio(format!("ops/(64 n log2 n) with history (mode {})", mode), worst)
        .count("transforms measured on planners with history", measured)
        .label(format!("histops-mode:{} worst-n:{}", mode, worst_n))
}
