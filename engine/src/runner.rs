//! Execution model: parent spawns shard workers (subprocesses), workers run cases and record statistics,
//! failures are shrunk and written as replay files, the parent merges everything into the evidence file.
use crate::gen::{hash_str, mix};
use crate::types::*;
use proptest::strategy::Strategy;
use proptest::test_runner::{Config, RngSeed, TestCaseError, TestError, TestRunner};
use serde::{Deserialize, Serialize};
use serde_json::{json, Value};
use std::cell::RefCell;
use std::collections::{BTreeMap, HashSet};
use std::io::Write;
use std::path::PathBuf;
use std::sync::atomic::{AtomicU32, Ordering};
use std::sync::Mutex;
use std::time::Instant;

#[derive(Copy, Clone, Debug, PartialEq, Eq)]
pub enum Tier {
    Quick,
    Thorough,
}
impl Tier {
    pub fn name(self) -> &'static str {
        match self {
            Tier::Quick => "quick",
            Tier::Thorough => "thorough",
        }
    }
    pub fn pick<T>(self, quick: T, thorough: T) -> T {
        match self {
            Tier::Quick => quick,
            Tier::Thorough => thorough,
        }
    }
}

static VARIANT: Mutex<String> = Mutex::new(String::new());
static MASK: AtomicU32 = AtomicU32::new(0);
pub fn set_variant(v: &str, mask: u32) {
    *VARIANT.lock().unwrap() = v.to_string();
    MASK.store(mask, Ordering::SeqCst);
    rustfft::verif_hooks::set_cpu_mask(mask);
}
pub fn current_variant() -> String {
    let v = VARIANT.lock().unwrap();
    if v.is_empty() {
        compiled_variant().to_string()
    } else {
        v.clone()
    }
}
pub fn current_mask() -> u32 {
    MASK.load(Ordering::SeqCst)
}
/// which build this binary is
pub fn compiled_variant() -> &'static str {
    let chk = cfg!(debug_assertions);
    match (cfg!(feature = "avx"), cfg!(feature = "sse"), chk) {
        (true, true, false) => "rel",
        (true, true, true) => "chk",
        (false, false, _) => "f-none",
        (false, true, _) => "f-sse",
        (true, false, _) => "f-avx",
    }
}

pub fn verif_dir() -> PathBuf {
    PathBuf::from(std::env::var("VERIF_DIR").unwrap_or_else(|_| "/verif".to_string()))
}
pub fn work_dir() -> PathBuf {
    let d = verif_dir().join("work");
    let _ = std::fs::create_dir_all(&d);
    d
}
pub fn default_seed() -> u64 {
    std::env::var("VERIF_SEED").ok().and_then(|s| s.trim().parse::<u64>().ok()).unwrap_or(20260923)
}

#[derive(Clone, Debug, Serialize, Deserialize)]
pub struct Violation {
    pub case: Case,
    pub original: Case,
    pub reason: String,
    pub signature: String,
    pub crashed: bool,
    #[serde(default)]
    pub replay: String,
}

#[derive(Default, Serialize, Deserialize)]
pub struct Stats {
    pub evaluations: u64,
    pub held: u64,
    pub nontrivial_evals: u64,
    pub skipped: BTreeMap<String, u64>,
    pub hist: BTreeMap<String, u64>,
    pub worst: BTreeMap<String, (f64, String)>,
    pub samples: Vec<Value>,
    pub violations: Vec<Violation>,
    pub known_hits: BTreeMap<String, u64>,
    pub notes: Vec<String>,
    pub extra: BTreeMap<String, Value>,
    pub infra_errors: Vec<String>,
    pub wall_s: f64,
}
impl Stats {
    pub fn merge(&mut self, o: Stats) {
        self.evaluations += o.evaluations;
        self.held += o.held;
        self.nontrivial_evals += o.nontrivial_evals;
        for (k, v) in o.skipped {
            *self.skipped.entry(k).or_default() += v;
        }
        for (k, v) in o.hist {
            *self.hist.entry(k).or_default() += v;
        }
        for (k, v) in o.worst {
            let e = self.worst.entry(k).or_insert((f64::NEG_INFINITY, String::new()));
            if v.0 > e.0 {
                *e = v;
            }
        }
        self.samples.extend(o.samples);
        self.violations.extend(o.violations);
        for (k, v) in o.known_hits {
            *self.known_hits.entry(k).or_default() += v;
        }
        self.notes.extend(o.notes);
        for (k, v) in o.extra {
            match (self.extra.get_mut(&k), &v) {
                (Some(Value::Number(a)), Value::Number(b)) if a.is_u64() && b.is_u64() => {
                    let s = a.as_u64().unwrap() + b.as_u64().unwrap();
                    self.extra.insert(k, json!(s));
                }
                (Some(Value::Array(a)), Value::Array(b)) => {
                    if a.len() < 64 {
                        a.extend(b.iter().cloned());
                    }
                }
                (None, _) => {
                    self.extra.insert(k, v);
                }
                _ => {}
            }
        }
        self.infra_errors.extend(o.infra_errors);
        self.wall_s = self.wall_s.max(o.wall_s);
    }
}

const CUR_LEN: usize = 1 << 16;

pub struct Ctx {
    pub prop: String,
    pub tier: Tier,
    pub seed: u64,
    pub shard: usize,
    pub nshards: usize,
    pub stats: Stats,
    pub keys: HashSet<u64>,
    pub known: Vec<KnownFinding>,
    cur_path: PathBuf,
    cur_map: *mut u8,
    /// stop generating once this many violations were recorded in this worker
    pub max_violations: usize,
    item_counter: usize,
}

#[derive(Clone, Debug)]
pub struct KnownFinding {
    pub property: String,
    pub signature: String,
    pub text: String,
}

pub fn load_known() -> Vec<KnownFinding> {
    let p = verif_dir().join("known_findings.txt");
    let mut out = vec![];
    if let Ok(s) = std::fs::read_to_string(p) {
        for line in s.lines() {
            let line = line.trim();
            // open: property=C12 sig=<signature> :: description
            if let Some(rest) = line.strip_prefix("open:") {
                let rest = rest.trim();
                let mut property = String::new();
                let mut signature = String::new();
                let (head, text) = match rest.split_once("::") {
                    Some((h, t)) => (h.trim(), t.trim()),
                    None => (rest, ""),
                };
                if let Some(i) = head.find("sig=") {
                    signature = head[i + 4..].trim().to_string();
                    for tok in head[..i].split_whitespace() {
                        if let Some(v) = tok.strip_prefix("property=") {
                            property = v.to_string();
                        }
                    }
                }
                if !property.is_empty() && !signature.is_empty() {
                    out.push(KnownFinding { property, signature, text: text.to_string() });
                }
            }
        }
    }
    out
}

impl Ctx {
    pub fn new(prop: &str, tier: Tier, seed: u64, shard: usize, nshards: usize) -> Ctx {
        let cur_path = work_dir().join(format!("{}.{}.{}.current", prop, current_variant_tag(), shard));
        Ctx {
            prop: prop.to_string(),
            tier,
            seed,
            shard,
            nshards,
            stats: Stats::default(),
            keys: HashSet::new(),
            known: load_known().into_iter().filter(|k| k.property == prop).collect(),
            cur_path,
            cur_map: std::ptr::null_mut(),
            max_violations: 2,
            item_counter: 0,
        }
    }
    /// round-robin partition of enumerated work items across shards
    pub fn mine(&mut self) -> bool {
        let i = self.item_counter;
        self.item_counter += 1;
        i % self.nshards == self.shard
    }
    pub fn done(&self) -> bool {
        self.stats.violations.len() >= self.max_violations
    }
    pub fn note(&mut self, s: impl Into<String>) {
        if self.stats.notes.len() < 40 {
            self.stats.notes.push(s.into());
        }
    }
    pub fn label(&mut self, l: &str) {
        *self.stats.hist.entry(l.to_string()).or_default() += 1;
    }
    pub fn bump(&mut self, key: &str, by: u64) {
        let cur = self.stats.extra.get(key).and_then(|v| v.as_u64()).unwrap_or(0);
        self.stats.extra.insert(key.to_string(), json!(cur + by));
    }

    fn write_current(&mut self, case: &Case) {
        // the record lives in a MAP_SHARED file mapping: a plain memory copy that survives the death of this process
        let j = case.to_json();
        if self.cur_map.is_null() {
            self.cur_map = crate::guard::shared_file_map(&self.cur_path, CUR_LEN);
        }
        if self.cur_map.is_null() || j.len() + 1 > CUR_LEN {
            if let Ok(mut f) = std::fs::File::create(&self.cur_path) {
                let _ = f.write_all(j.as_bytes());
            }
            return;
        }
        unsafe {
            // terminator first, then the bytes, so that a reader never sees a stale tail
            let b = j.as_bytes();
            std::ptr::copy_nonoverlapping(b.as_ptr(), self.cur_map, b.len());
            *self.cur_map.add(b.len()) = 0;
        }
    }

    fn known_match(&self, sig: &str) -> Option<&KnownFinding> {
        self.known.iter().find(|k| k.signature == sig)
    }

    /// known-finding exclusion + current-case record + run (+ statistics when `record`)
    fn eval(&mut self, case: &Case, record: bool) -> Outcome {
        // known findings are excluded by construction (and counted), so the search continues behind them
        let sig = crate::props::signature(case);
        if self.known_match(&sig).is_some() {
            if record {
                *self.stats.known_hits.entry(sig).or_default() += 1;
            }
            return Outcome::skip("known finding excluded");
        }
        self.write_current(case);
        let out = match crate::exec::catch(|| crate::props::run_case(case)) {
            Ok(o) => o,
            Err(p) => Outcome::bad(format!("panic outside a wrapped call: {} @ {}", p.msg, p.loc)),
        };
        if record {
            self.record(case, &out);
        }
        out
    }

    /// Run one case and record the outcome; a violation is shrunk and stored.
    pub fn exec(&mut self, case: &Case) -> Outcome {
        if self.done() {
            return Outcome::skip("stopped after violations");
        }
        let out = self.eval(case, true);
        if let Outcome::Violated { reason } = &out {
            self.on_violation(case.clone(), reason.clone());
        }
        out
    }

    fn record(&mut self, case: &Case, out: &Outcome) {
        self.stats.evaluations += 1;
        let e = self.stats.evaluations;
        if e <= 2 || (e & (e - 1)) == 0 && e >= 64 {
            if self.stats.samples.len() < 24 {
                self.stats.samples.push(serde_json::to_value(case).unwrap());
            }
        }
        match out {
            Outcome::Held { nontrivial, labels, ratios, counts } => {
                for (k, by) in counts {
                    *self.stats.hist.entry(k.clone()).or_default() += *by;
                }
                self.stats.held += 1;
                if *nontrivial {
                    self.stats.nontrivial_evals += 1;
                    let mut c = case.clone();
                    c.variant = String::new();
                    self.keys.insert(hash_str(&c.to_json()) ^ mix(hash_str(&case.variant), case.mask as u64));
                }
                for l in labels {
                    *self.stats.hist.entry(l.clone()).or_default() += 1;
                }
                for (name, r) in ratios {
                    let e = self.stats.worst.entry(name.clone()).or_insert((f64::NEG_INFINITY, String::new()));
                    if *r > e.0 {
                        *e = (*r, short_case(case));
                    }
                }
            }
            Outcome::Skipped { reason } => {
                *self.stats.skipped.entry(reason.clone()).or_default() += 1;
            }
            Outcome::Violated { .. } => {}
        }
    }

    fn on_violation(&mut self, case: Case, reason: String) {
        let (min_case, min_reason) = shrink(&case, &reason, &mut |c| match crate::exec::catch(|| crate::props::run_case(c)) {
            Ok(Outcome::Violated { reason }) => Some(reason),
            Ok(_) => None,
            Err(p) => Some(format!("panic outside a wrapped call: {} @ {}", p.msg, p.loc)),
        });
        let sig = crate::props::signature(&min_case);
        if let Some(k) = self.known_match(&sig) {
            let t = k.signature.clone();
            *self.stats.known_hits.entry(t).or_default() += 1;
            return;
        }
        self.stats.violations.push(Violation {
            case: min_case,
            original: case,
            reason: min_reason,
            signature: sig,
            crashed: false,
            replay: String::new(),
        });
    }

    /// Random part of a property: cases drawn by a proptest strategy under a seeded TestRunner;
    /// proptest shrinks a failing case first, then the generic simplifier runs.
    pub fn run_random<S: Strategy<Value = Case>>(&mut self, label: &str, cases: u32, strat: S) {
        if self.done() || cases == 0 {
            return;
        }
        let seed = mix(mix(self.seed, hash_str(&format!("{}/{}", self.prop, label))), self.shard as u64);
        let cfg = Config {
            cases,
            failure_persistence: None,
            rng_seed: RngSeed::Fixed(seed),
            max_shrink_iters: 120,
            max_local_rejects: 1_000_000,
            max_global_rejects: 1_000_000,
            ..Config::default()
        };
        let mut runner = TestRunner::new(cfg);
        let cell = RefCell::new(&mut *self);
        let failed: RefCell<bool> = RefCell::new(false);
        let res = runner.run(&strat, |case| {
            let mut me = cell.borrow_mut();
            // once a failure was seen proptest is shrinking: evaluate silently
            let shrinking = *failed.borrow();
            match me.eval(&case, !shrinking) {
                Outcome::Violated { reason } => {
                    *failed.borrow_mut() = true;
                    Err(TestCaseError::fail(reason))
                }
                _ => Ok(()),
            }
        });
        drop(cell);
        match res {
            Ok(()) => {}
            Err(TestError::Fail(reason, case)) => {
                let r = reason.message().to_string();
                // re-derive the reason on the minimal case
                let reason = match crate::exec::catch(|| crate::props::run_case(&case)) {
                    Ok(Outcome::Violated { reason }) => reason,
                    _ => r,
                };
                self.on_violation(case, reason);
            }
            Err(TestError::Abort(r)) => {
                self.stats.infra_errors.push(format!("proptest aborted in {}: {}", label, r.message()));
            }
        }
    }
}

fn current_variant_tag() -> String {
    format!("{}-m{}", current_variant(), current_mask())
}

/// append a suffix (Path::with_extension would replace the shard number)
fn ext(base: &std::path::Path, suffix: &str) -> PathBuf {
    PathBuf::from(format!("{}.{}", base.display(), suffix))
}

pub fn short_case(c: &Case) -> String {
    format!("{:?}/{:?}/{:?}/n={}/{:?}/k={}/{}#{}", c.planner, c.ty, c.dir, c.n, c.entry, c.chunks, c.input.family, c.input.seed)
}

// ---------------------------------------------------------------------------------------------
// generic greedy simplifier

fn divisors_desc(n: usize) -> Vec<usize> {
    let mut v = vec![];
    let mut d = 1;
    while d * d <= n {
        if n % d == 0 {
            v.push(d);
            if d != n / d {
                v.push(n / d);
            }
        }
        d += 1;
    }
    v.retain(|&x| x != n && x >= 1);
    v.sort();
    v
}

fn subtrees(t: &Tree, out: &mut Vec<Tree>) {
    match t {
        Tree::Radix4Base(_, a) | Tree::Radix3Base(_, a) | Tree::Raders(a) | Tree::Bluesteins(_, a) => {
            out.push((**a).clone());
            subtrees(a, out);
        }
        Tree::MixedRadix(a, b) | Tree::MixedRadixSmall(a, b) | Tree::GoodThomas(a, b) | Tree::GoodThomasSmall(a, b) => {
            out.push((**a).clone());
            out.push((**b).clone());
            subtrees(a, out);
            subtrees(b, out);
        }
        _ => {}
    }
}

fn candidates(c: &Case) -> Vec<Case> {
    let mut out = vec![];
    let push = |out: &mut Vec<Case>, f: &dyn Fn(&mut Case)| {
        let mut d = c.clone();
        f(&mut d);
        if d != *c {
            out.push(d);
        }
    };
    // source simplifications
    match &c.source {
        Source::History { reqs, pick } => {
            for i in 0..reqs.len() {
                if i == *pick {
                    continue;
                }
                let mut r = reqs.clone();
                r.remove(i);
                let p = if i < *pick { pick - 1 } else { *pick };
                push(&mut out, &|d| d.source = Source::History { reqs: r.clone(), pick: p });
            }
            if reqs.len() == 1 {
                push(&mut out, &|d| d.source = Source::Plan);
            }
        }
        Source::Tree(t) => {
            let mut subs = vec![];
            subtrees(t, &mut subs);
            for s in subs {
                let n = crate::trees::tree_len(&s);
                push(&mut out, &|d| {
                    d.source = Source::Tree(s.clone());
                    d.n = n;
                });
            }
        }
        Source::Plan => {
            // smaller lengths: divisors, halves, neighbours
            let mut ns: Vec<usize> = divisors_desc(c.n);
            if c.n > 2 {
                ns.push(c.n / 2);
                ns.push(c.n - 1);
            }
            ns.sort();
            ns.dedup();
            for n in ns.into_iter().filter(|&n| n >= 1 && n < c.n).take(24) {
                push(&mut out, &|d| d.n = n);
            }
        }
    }
    if c.chunks > 1 {
        push(&mut out, &|d| d.chunks = 1);
        push(&mut out, &|d| d.chunks = c.chunks - 1);
    }
    if c.input.explicit.is_none() {
        for fam in ["impulse", "uniform"] {
            if c.input.family != fam {
                push(&mut out, &|d| d.input = InputSpec::fam(fam, if fam == "impulse" { 0 } else { 1 }));
            }
        }
        if c.input.family == "impulse" && c.input.seed > 1 {
            push(&mut out, &|d| d.input.seed = 0);
            push(&mut out, &|d| d.input.seed = 1);
            push(&mut out, &|d| d.input.seed = c.input.seed / 2);
        }
    } else if let Some(ex) = &c.input.explicit {
        // zero out halves / single elements
        let len = ex.len();
        for (a, b) in [(0, len / 2), (len / 2, len)] {
            if ex[a..b].iter().any(|e| *e != (0.0, 0.0)) {
                push(&mut out, &|d| {
                    if let Some(e) = &mut d.input.explicit {
                        for x in e[a..b].iter_mut() {
                            *x = (0.0, 0.0);
                        }
                    }
                });
            }
        }
        if len <= 64 {
            for i in 0..len {
                if ex[i] != (0.0, 0.0) {
                    push(&mut out, &|d| {
                        if let Some(e) = &mut d.input.explicit {
                            e[i] = (0.0, 0.0);
                        }
                    });
                }
                if ex[i] != (0.0, 0.0) && ex[i] != (1.0, 0.0) {
                    push(&mut out, &|d| {
                        if let Some(e) = &mut d.input.explicit {
                            e[i] = (1.0, 0.0);
                        }
                    });
                }
            }
        }
    }
    for i in 0..c.p.len() {
        if c.p[i] != 0 {
            push(&mut out, &|d| d.p[i] = 0);
            if c.p[i].abs() > 1 {
                push(&mut out, &|d| d.p[i] = c.p[i] / 2);
            }
        }
    }
    if c.planner == Planner::Auto {
        for p in [Planner::Scalar, Planner::Sse, Planner::Avx] {
            push(&mut out, &|d| d.planner = p);
        }
    }
    if c.dir == Dir::Inv {
        push(&mut out, &|d| d.dir = Dir::Fwd);
    }
    out
}

/// Greedy: keep applying the first simplification that still fails.
pub fn shrink(case: &Case, reason: &str, fails: &mut dyn FnMut(&Case) -> Option<String>) -> (Case, String) {
    let mut cur = case.clone();
    let mut cur_reason = reason.to_string();
    let start = Instant::now();
    let mut budget = 400usize;
    'outer: loop {
        for cand in candidates(&cur) {
            if budget == 0 || start.elapsed().as_secs() > 60 {
                break 'outer;
            }
            budget -= 1;
            if let Some(r) = fails(&cand) {
                cur = cand;
                cur_reason = r;
                continue 'outer;
            }
        }
        break;
    }
    (cur, cur_reason)
}

// ---------------------------------------------------------------------------------------------
// worker side

pub fn worker_main(prop: &str, tier: Tier, seed: u64, shard: usize, nshards: usize) -> i32 {
    let t0 = Instant::now();
    let mut ctx = Ctx::new(prop, tier, seed, shard, nshards);
    crate::props::worker(&mut ctx);
    ctx.stats.wall_s = t0.elapsed().as_secs_f64();
    let tag = current_variant_tag();
    let base = work_dir().join(format!("{}.{}.{}", prop, tag, shard));
    let mut keys: Vec<u8> = Vec::with_capacity(ctx.keys.len() * 8);
    for k in &ctx.keys {
        keys.extend_from_slice(&k.to_le_bytes());
    }
    std::fs::write(ext(&base, "keys"), keys).unwrap();
    std::fs::write(ext(&base, "stats.json"), serde_json::to_vec(&ctx.stats).unwrap()).unwrap();
    let _ = std::fs::remove_file(&ctx.cur_path);
    0
}

// ---------------------------------------------------------------------------------------------
// parent side

pub struct WorkerSpec {
    pub variant: String,
    pub mask: u32,
    pub shard: usize,
    pub nshards: usize,
}

pub fn variant_binary(variant: &str) -> PathBuf {
    verif_dir().join("bin").join(format!("vf-engine-{}", variant))
}

fn replay_path(prop: &str, case: &Case) -> PathBuf {
    let h = hash_str(&case.to_json());
    let d = verif_dir().join("replays");
    let _ = std::fs::create_dir_all(&d);
    d.join(format!("{}-{:016x}.json", prop, h))
}

pub fn write_replay(prop: &str, v: &Violation) -> String {
    let p = replay_path(prop, &v.case);
    let doc = json!({
        "property": prop,
        "case": v.case,
        "reason": v.reason,
        "signature": v.signature,
        "crashed": v.crashed,
        "original_case": v.original,
        "how_to_replay": format!("./vf replay {}", p.display()),
    });
    std::fs::write(&p, serde_json::to_string_pretty(&doc).unwrap()).unwrap();
    p.display().to_string()
}

/// run one case in a subprocess of the right variant; Some(reason) if it fails or crashes
pub fn run_case_subprocess(case: &Case) -> Option<String> {
    let bin = variant_binary(&case.variant);
    let out = std::process::Command::new(&bin)
        .arg("run-case")
        .arg("--mask")
        .arg(case.mask.to_string())
        .arg(case.to_json())
        .output();
    match out {
        Err(e) => Some(format!("could not spawn {}: {}", bin.display(), e)),
        Ok(o) => {
            use std::os::unix::process::ExitStatusExt;
            if let Some(sig) = o.status.signal() {
                return Some(format!("process killed by signal {} ({})", sig, signal_name(sig)));
            }
            match o.status.code() {
                Some(0) => None,
                Some(1) => {
                    let s = String::from_utf8_lossy(&o.stdout);
                    Some(s.lines().find(|l| l.starts_with("REASON: ")).map(|l| l[8..].to_string()).unwrap_or_else(|| "violated".into()))
                }
                Some(c) => Some(format!("run-case exited with status {}", c)),
                None => Some("run-case died".into()),
            }
        }
    }
}

pub fn signal_name(sig: i32) -> &'static str {
    match sig {
        11 => "SIGSEGV: access outside mapped/allowed memory",
        7 => "SIGBUS",
        6 => "SIGABRT: abort (e.g. unsafe precondition violated, double panic)",
        4 => "SIGILL: illegal instruction",
        8 => "SIGFPE",
        9 => "SIGKILL",
        _ => "signal",
    }
}

pub struct CheckResult {
    pub stats: Stats,
    pub distinct: usize,
    pub exit: i32,
}

/// Spawn the workers described by `specs`, wait, merge. `watchdog_s` bounds each worker.
pub fn run_workers(prop: &str, tier: Tier, seed: u64, specs: Vec<WorkerSpec>, watchdog_s: u64) -> (Stats, usize, bool) {
    let wd = work_dir();
    // wipe stale per-run files for this property
    if let Ok(rd) = std::fs::read_dir(&wd) {
        for e in rd.flatten() {
            let name = e.file_name().to_string_lossy().to_string();
            if name.starts_with(&format!("{}.", prop)) {
                let _ = std::fs::remove_file(e.path());
            }
        }
    }
    let max_par = std::thread::available_parallelism().map(|n| n.get()).unwrap_or(8).min(16);
    let mut pending: std::collections::VecDeque<WorkerSpec> = specs.into();
    let mut running: Vec<(WorkerSpec, std::process::Child, Instant)> = vec![];
    let mut merged = Stats::default();
    let mut keys: HashSet<u64> = HashSet::new();
    let mut infra = false;
    loop {
        while running.len() < max_par {
            if let Some(s) = pending.pop_front() {
                let bin = variant_binary(&s.variant);
                let child = std::process::Command::new(&bin)
                    .arg("worker")
                    .arg(prop)
                    .arg("--tier")
                    .arg(tier.name())
                    .arg("--seed")
                    .arg(seed.to_string())
                    .arg("--shard")
                    .arg(format!("{}/{}", s.shard, s.nshards))
                    .arg("--variant")
                    .arg(&s.variant)
                    .arg("--mask")
                    .arg(s.mask.to_string())
                    .stdout(std::process::Stdio::inherit())
                    .stderr(std::process::Stdio::inherit())
                    .spawn();
                match child {
                    Ok(c) => running.push((s, c, Instant::now())),
                    Err(e) => {
                        merged.infra_errors.push(format!("cannot spawn {}: {}", bin.display(), e));
                        infra = true;
                    }
                }
            } else {
                break;
            }
        }
        if running.is_empty() {
            break;
        }
        let mut i = 0;
        let mut progressed = false;
        while i < running.len() {
            let finished = match running[i].1.try_wait() {
                Ok(Some(st)) => Some(st),
                Ok(None) => {
                    if running[i].2.elapsed().as_secs() > watchdog_s {
                        let _ = running[i].1.kill();
                        let _ = running[i].1.wait();
                        merged.infra_errors.push(format!(
                            "worker {}/{} (variant {} mask {}) exceeded its watchdog of {} s: inconclusive",
                            running[i].0.shard, running[i].0.nshards, running[i].0.variant, running[i].0.mask, watchdog_s
                        ));
                        infra = true;
                        let _ = running.remove(i);
                        progressed = true;
                        continue;
                    }
                    None
                }
                Err(_) => None,
            };
            if let Some(st) = finished {
                let (spec, _, _) = running.remove(i);
                progressed = true;
                let tag = format!("{}-m{}", spec.variant, spec.mask);
                let base = wd.join(format!("{}.{}.{}", prop, tag, spec.shard));
                use std::os::unix::process::ExitStatusExt;
                if st.success() {
                    match std::fs::read(ext(&base, "stats.json")).ok().and_then(|b| serde_json::from_slice::<Stats>(&b).ok()) {
                        Some(s) => merged.merge(s),
                        None => {
                            merged.infra_errors.push(format!("worker {} wrote no statistics", spec.shard));
                            infra = true;
                        }
                    }
                    if let Ok(b) = std::fs::read(ext(&base, "keys")) {
                        for ch in b.chunks_exact(8) {
                            keys.insert(u64::from_le_bytes(ch.try_into().unwrap()));
                        }
                    }
                } else if let Some(sig) = st.signal() {
                    // crash: the case being run is in the .current file
                    let cur = wd.join(format!("{}.{}.{}.current", prop, tag, spec.shard));
                    let text = std::fs::read(&cur).ok().map(|b| {
                        let end = b.iter().position(|&c| c == 0).unwrap_or(b.len());
                        String::from_utf8_lossy(&b[..end]).to_string()
                    });
                    match text.and_then(|s| serde_json::from_str::<Case>(&s).ok()) {
                        Some(case) => {
                            let reason = format!("worker killed by signal {} ({}) while running this case", sig, signal_name(sig));
                            eprintln!("[{}] worker {} crashed (signal {}); shrinking in subprocesses", prop, spec.shard, sig);
                            // shrinking a crash costs one subprocess per candidate: do it for the first few crashes only
                            let (min_case, min_reason) = if merged.violations.iter().filter(|v| v.crashed).count() < 2 {
                                shrink(&case, &reason, &mut |c| run_case_subprocess(c))
                            } else {
                                (case.clone(), reason.clone())
                            };
                            let sigtxt = crate::props::signature(&min_case);
                            let known = load_known();
                            if known.iter().any(|k| k.property == prop && k.signature == sigtxt) {
                                *merged.known_hits.entry(sigtxt).or_default() += 1;
                            } else {
                                merged.violations.push(Violation {
                                    case: min_case,
                                    original: case,
                                    reason: min_reason,
                                    signature: sigtxt,
                                    crashed: true,
                                    replay: String::new(),
                                });
                            }
                        }
                        None => {
                            merged.infra_errors.push(format!("worker {} died on signal {} with no current-case record", spec.shard, sig));
                            infra = true;
                        }
                    }
                } else {
                    merged.infra_errors.push(format!("worker {} exited with {:?}", spec.shard, st.code()));
                    infra = true;
                }
                continue;
            }
            i += 1;
        }
        if !progressed {
            std::thread::sleep(std::time::Duration::from_millis(20));
        }
    }
    (merged, keys.len(), infra)
}

/// Merge, write evidence, print VIOLATION / KNOWN-FINDING lines; returns the process exit code.
pub fn finish_check(prop: &str, tier: Tier, seed: u64, mut stats: Stats, distinct: usize, infra: bool, wall_s: f64) -> i32 {
    let meta = crate::props::meta(prop, tier);
    let known = load_known();
    for k in known.iter().filter(|k| k.property == prop) {
        println!("KNOWN-FINDING: property={} {} :: {} (excluded from generation {} times this run)", prop, k.signature, k.text,
            stats.known_hits.get(&k.signature).copied().unwrap_or(0));
    }
    // de-duplicate violations by signature
    let mut seen = HashSet::new();
    let mut viols = vec![];
    for v in stats.violations.drain(..) {
        if seen.insert(v.signature.clone()) {
            viols.push(v);
        }
    }
    for v in viols.iter_mut() {
        v.replay = write_replay(prop, v);
        println!("VIOLATION property={} replay={}", prop, v.replay);
        println!("  reason: {}", v.reason);
        println!("  case:   {}", v.case.to_json());
    }
    // evenly thin the samples
    let mut samples = std::mem::take(&mut stats.samples);
    if samples.len() > 14 {
        let step = samples.len() as f64 / 14.0;
        samples = (0..14).map(|i| samples[(i as f64 * step) as usize].clone()).collect();
    }
    if samples.is_empty() {
        samples.push(json!("no case was generated"));
    }
    let mut coverage = serde_json::Map::new();
    coverage.insert("evaluations".into(), json!(stats.evaluations));
    coverage.insert("distinct_nontrivial".into(), json!(distinct));
    coverage.insert("nontrivial_evaluations".into(), json!(stats.nontrivial_evals));
    coverage.insert("rule".into(), json!(meta.rule));
    coverage.insert("samples".into(), Value::Array(samples));
    coverage.insert("exhaustive".into(), json!(meta.exhaustive));
    if !meta.exhaustive_note.is_empty() {
        coverage.insert("exhaustive_part".into(), json!(meta.exhaustive_note));
    }
    coverage.insert("histogram".into(), json!(stats.hist));
    coverage.insert("skipped_not_judged".into(), json!(stats.skipped));
    let worst: BTreeMap<String, Value> =
        stats.worst.iter().map(|(k, v)| (k.clone(), json!({"ratio_to_bound": v.0, "at": v.1}))).collect();
    coverage.insert("worst_observed".into(), json!(worst));
    coverage.insert("known_findings_excluded".into(), json!(stats.known_hits));
    coverage.insert("violations_found".into(), json!(viols.iter().map(|v| json!({"replay": v.replay, "reason": v.reason, "signature": v.signature})).collect::<Vec<_>>()));
    coverage.insert("infrastructure_errors".into(), json!(stats.infra_errors));
    coverage.insert("notes".into(), json!(stats.notes));
    for (k, v) in &stats.extra {
        coverage.insert(k.clone(), v.clone());
    }
    let ev = json!({
        "property_id": prop,
        "tier": tier.name(),
        "seed": seed,
        "level": "exploration",
        "coverage": Value::Object(coverage),
        "assumptions": meta.assumptions,
        "wall_s": wall_s,
        "violations": viols.len(),
    });
    let evdir = verif_dir().join("evidence");
    let _ = std::fs::create_dir_all(&evdir);
    std::fs::write(evdir.join(format!("{}.json", prop)), serde_json::to_string_pretty(&ev).unwrap()).unwrap();
    println!(
        "[{}] tier={} seed={} evaluations={} distinct_nontrivial={} violations={} wall={:.1}s",
        prop, tier.name(), seed, stats.evaluations, distinct, viols.len(), wall_s
    );
    if !viols.is_empty() {
        return 1;
    }
    if infra || !stats.infra_errors.is_empty() {
        for e in &stats.infra_errors {
            eprintln!("INCONCLUSIVE: {}", e);
        }
        return 2;
    }
    0
}
