//! vf-engine: property-based verification engine for RustFFT (see /verif/DESIGN.md)
#![allow(dead_code)]

use vf_engine::runner::Tier;
use vf_engine::*;
use std::time::Instant;

fn arg_after(args: &[String], flag: &str) -> Option<String> {
    args.iter().position(|a| a == flag).and_then(|i| args.get(i + 1).cloned())
}

fn main() {
    let args: Vec<String> = std::env::args().collect();
    if args.len() < 2 {
        eprintln!("usage: vf-engine check|worker|run-case|replay|selfcheck ...");
        std::process::exit(2);
    }
    exec::install_panic_hook();
    let tier = match arg_after(&args, "--tier").or_else(|| std::env::var("VERIF_TIER").ok()).as_deref() {
        Some("thorough") => Tier::Thorough,
        _ => Tier::Quick,
    };
    let seed = arg_after(&args, "--seed").and_then(|s| s.parse().ok()).unwrap_or_else(runner::default_seed);
    let mask: u32 = arg_after(&args, "--mask").and_then(|s| s.parse().ok()).unwrap_or(0);
    let variant = arg_after(&args, "--variant").unwrap_or_else(|| runner::compiled_variant().to_string());
    runner::set_variant(&variant, mask);
    let code = match args[1].as_str() {
        "check" => {
            let prop = args[2].clone();
            let t0 = Instant::now();
            // reference self-check first: a broken oracle is an infrastructure error, never a violation
            match refdft::self_check(seed) {
                Ok(_) => {}
                Err(e) => {
                    eprintln!("INCONCLUSIVE: {}", e);
                    std::process::exit(2);
                }
            }
            let specs = props::worker_specs(&prop, tier);
            let watchdog = tier.pick(1500, 6 * 3600);
            let (mut stats, distinct, infra) = runner::run_workers(&prop, tier, seed, specs, watchdog);
            props::parent_extra(&prop, tier, seed, &mut stats);
            runner::finish_check(&prop, tier, seed, stats, distinct, infra, t0.elapsed().as_secs_f64())
        }
        "worker" => {
            let prop = args[2].clone();
            let shard = arg_after(&args, "--shard").unwrap_or_else(|| "0/1".into());
            let (i, n) = shard.split_once('/').unwrap();
            runner::worker_main(&prop, tier, seed, i.parse().unwrap(), n.parse().unwrap())
        }
        "run-case" => {
            let json = args.last().unwrap();
            let case: types::Case = match serde_json::from_str(json) {
                Ok(c) => c,
                Err(e) => {
                    eprintln!("bad case json: {}", e);
                    std::process::exit(2);
                }
            };
            runner::set_variant(&case.variant, case.mask);
            let out = match exec::catch(|| props::run_case(&case)) {
                Ok(o) => o,
                Err(p) => types::Outcome::bad(format!("panic outside a wrapped call: {} @ {}", p.msg, p.loc)),
            };
            match out {
                types::Outcome::Violated { reason } => {
                    println!("REASON: {}", reason);
                    1
                }
                types::Outcome::Skipped { reason } => {
                    println!("SKIPPED: {}", reason);
                    0
                }
                types::Outcome::Held { .. } => {
                    println!("HELD");
                    0
                }
            }
        }
        "replay" => {
            let path = &args[2];
            let text = std::fs::read_to_string(path).expect("cannot read replay file");
            let doc: serde_json::Value = serde_json::from_str(&text).expect("replay file is not JSON");
            let prop = doc["property"].as_str().unwrap_or("?").to_string();
            let case: types::Case = serde_json::from_value(doc["case"].clone()).expect("replay file has no case");
            match runner::run_case_subprocess(&case) {
                Some(reason) => {
                    println!("VIOLATION property={} replay={}", prop, path);
                    println!("  reason: {}", reason);
                    1
                }
                None => {
                    println!("[{}] replay of {} held", prop, path);
                    0
                }
            }
        }
        "debug-exact" => {
            // list the depth<=1 trees whose exact check is not judged, with the offending constant
            let all = props::c12::depth1_trees(256);
            let mut shown = 0;
            for (idx, t) in all.iter().enumerate() {
                let n = trees::tree_len(t);
                let c = types::Case::new("C12", "exact", types::Planner::Scalar, types::Ty::F64, types::Dir::Fwd, n)
                    .with_source(types::Source::Tree(t.clone()))
                    .with_input(types::InputSpec::fam("random-field", idx as u64));
                if let types::Outcome::Skipped { reason } = props::run_case(&c) {
                    if reason.contains("exact oracle") && shown < 25 {
                        println!("{} :: {} :: undecodable={:?}", trees::describe(t), reason, gfp::undecodable());
                        shown += 1;
                    }
                }
            }
            0
        }
        "fuzz-decode" => {
            let which: u8 = args[2].parse().unwrap_or(0);
            let data = std::fs::read(&args[3]).unwrap_or_default();
            match fuzzdec::decode(&data, which) {
                Some(mut c) => {
                    c.variant = "chk".into();
                    println!("{}", c.to_json());
                    0
                }
                None => 2,
            }
        }
        "selfcheck" => match refdft::self_check(seed) {
            Ok((a, b)) => {
                println!("reference self-check ok: R2<DD> vs R1 {:e}, R2<f64> vs R1 {:e}", a, b);
                0
            }
            Err(e) => {
                eprintln!("{}", e);
                2
            }
        },
        other => {
            eprintln!("unknown command {}", other);
            2
        }
    };
    std::process::exit(code);
}
