//! Call-level checks shared by several properties. Each takes a `Case`, obtains the transform under test
//! (fresh planner / planning history / constructor tree) and applies one explicit oracle.
use crate::dd::{cos_sin_2pi, CDD};
use crate::exec::*;
use crate::gen::{is_zero_vec, make_input, to_pairs};
use crate::refdft::{self, Prec};
use crate::checks2::first_nonfinite;
use crate::types::*;
use rustfft::num_complex::Complex;
use rustfft::Fft;
use std::any::Any;
use std::cell::RefCell;
use std::rc::Rc;
use std::sync::Arc;

#[macro_export]
macro_rules! by_ty {
    ($ty:expr, $f:ident ( $($a:expr),* )) => {
        match $ty {
            $crate::types::Ty::F32 => $f::<f32>($($a),*),
            $crate::types::Ty::F64 => $f::<f64>($($a),*),
        }
    };
}

// ---------------------------------------------------------------------------------------------
// obtaining the transform under test

thread_local! {
    static FFT_CACHE: RefCell<Vec<(String, Box<dyn Any>)>> = RefCell::new(Vec::new());
    static REF_CACHE: RefCell<Vec<(String, Rc<Vec<CDD>>)>> = RefCell::new(Vec::new());
}

fn source_key(case: &Case) -> String {
    format!(
        "{:?}|{:?}|{:?}|{}|{}|{}|{}",
        case.planner,
        case.ty,
        case.dir,
        case.n,
        serde_json::to_string(&case.source).unwrap(),
        case.variant,
        case.mask
    )
}

/// The transform a case talks about. Always built from a *fresh* planner, so a case is a pure function of
/// its fields; a small per-thread cache only avoids rebuilding the identical object for consecutive cases.
pub fn obtain<T: Real>(case: &Case) -> Result<Arc<dyn Fft<T>>, Outcome> {
    let key = source_key(case);
    let hit = FFT_CACHE.with(|c| {
        c.borrow().iter().find(|(k, _)| *k == key).and_then(|(_, b)| b.downcast_ref::<Arc<dyn Fft<T>>>().cloned())
    });
    if let Some(f) = hit {
        return Ok(f);
    }
    let built = obtain_uncached::<T>(case)?;
    FFT_CACHE.with(|c| {
        let mut c = c.borrow_mut();
        if c.len() >= 6 {
            c.remove(0);
        }
        c.push((key, Box::new(Arc::clone(&built))));
    });
    Ok(built)
}

/// Always builds a NEW instance from a NEW planner (never served from the harness's transform cache): an instance no call
/// has touched yet.
pub fn obtain_uncached<T: Real>(case: &Case) -> Result<Arc<dyn Fft<T>>, Outcome> {
    let built: Arc<dyn Fft<T>> = match &case.source {
        Source::Plan => {
            let mut pl = match AnyPlanner::<T>::new(case.planner) {
                Some(p) => p,
                None => return Err(Outcome::skip(format!("planner {:?} unavailable in this configuration", case.planner))),
            };
            // odd lengths go through plan_fft_forward / plan_fft_inverse, even ones through plan_fft(len, direction)
            match catch(|| if case.n % 2 == 1 { pl.plan_named(case.n, case.dir) } else { pl.plan(case.n, case.dir) }) {
                Ok(f) => f,
                Err(p) => return Err(Outcome::bad(format!("planning n={} panicked: {} @ {}", case.n, p.msg, p.loc))),
            }
        }
        Source::History { reqs, pick } => {
            let mut pl = match AnyPlanner::<T>::new(case.planner) {
                Some(p) => p,
                None => return Err(Outcome::skip(format!("planner {:?} unavailable in this configuration", case.planner))),
            };
            let mut got = None;
            for (i, r) in reqs.iter().enumerate() {
                match catch(|| if (r.n + i) % 2 == 1 { pl.plan_named(r.n, r.dir) } else { pl.plan(r.n, r.dir) }) {
                    Ok(f) => {
                        if i == *pick {
                            got = Some(f);
                        }
                    }
                    Err(p) => {
                        return Err(Outcome::bad(format!("planning request #{} (n={}, {:?}) panicked: {} @ {}", i, r.n, r.dir, p.msg, p.loc)))
                    }
                }
            }
            drop(pl); // transforms must stay valid after the planner is gone
            match got {
                Some(f) => f,
                None => return Err(Outcome::skip("history pick out of range")),
            }
        }
        Source::Tree(t) => match crate::trees::build::<T>(t, case.dir) {
            Ok(f) => f,
            Err(e) => return Err(e),
        },
    };
    Ok(built)
}

/// checks len()/direction of what `obtain` returned against the case (cheap; every check does it)
pub fn identity_ok<T: Real>(case: &Case, fft: &Arc<dyn Fft<T>>) -> Result<(), Outcome> {
    if fft.len() != case.n {
        return Err(Outcome::bad(format!("transform reports len()={} for requested n={}", fft.len(), case.n)));
    }
    if Dir::from_fft(fft.fft_direction()) != case.dir {
        return Err(Outcome::bad(format!("transform reports direction {:?} for requested {:?}", fft.fft_direction(), case.dir)));
    }
    Ok(())
}

// ---------------------------------------------------------------------------------------------
// references

pub fn prec_for(ty: Ty) -> Prec {
    match ty {
        Ty::F32 => Prec::F64,
        Ty::F64 => Prec::DD,
    }
}

/// analytic DFT of a unit impulse at `pos`: Y[k] = w^(pos*k)
pub fn impulse_column(n: usize, pos: usize, dir: Dir, amp: (f64, f64)) -> Vec<CDD> {
    let a = CDD::from_f64(amp.0, amp.1);
    let unit = amp == (1.0, 0.0);
    (0..n)
        .map(|k| {
            let e = ((pos as u128 * k as u128) % n as u128) as u64;
            let (c, s) = cos_sin_2pi(e, n as u64);
            let w = match dir {
                Dir::Fwd => CDD { re: c, im: -s },
                Dir::Inv => CDD { re: c, im: s },
            };
            if unit {
                w
            } else {
                a * w
            }
        })
        .collect()
}

/// reference DFT of every chunk of `input` (k*n elements), cached per (type, dir, n, input)
pub fn reference_for<T: Real>(case: &Case, input: &[Complex<T>]) -> Rc<Vec<CDD>> {
    let n = case.n;
    let key = format!("{:?}|{:?}|{}|{}|{}", case.ty, case.dir, n, case.chunks, serde_json::to_string(&case.input).unwrap());
    if let Some(r) = REF_CACHE.with(|c| c.borrow().iter().find(|(k, _)| *k == key).map(|(_, r)| Rc::clone(r))) {
        return r;
    }
    let mut out: Vec<CDD> = Vec::with_capacity(input.len());
    for ch in input.chunks(n.max(1)) {
        let pairs = to_pairs(ch);
        // impulses have an analytic column; everything else goes through R2
        let nz: Vec<usize> = (0..pairs.len()).filter(|&i| pairs[i] != (0.0, 0.0)).collect();
        if nz.len() == 1 && n > 0 {
            out.extend(impulse_column(n, nz[0], case.dir, pairs[nz[0]]));
        } else {
            out.extend(refdft::reference(&pairs, case.dir, prec_for(case.ty)));
        }
    }
    let r = Rc::new(out);
    REF_CACHE.with(|c| {
        let mut c = c.borrow_mut();
        // bounded by entries and by total elements
        while c.len() >= 48 || (c.len() >= 4 && c.iter().map(|e| e.1.len()).sum::<usize>() > 3_000_000) {
            c.remove(0);
        }
        c.push((key, Rc::clone(&r)));
    });
    r
}

// ---------------------------------------------------------------------------------------------
// kind "numeric": output equals the DFT of the input within factor*B(n,T), per chunk

pub fn tolerance_factor(prop: &str) -> f64 {
    match prop {
        "C02" => 1.0,
        _ => 4.0,
    }
}

enum OutVec<T: Real> {
    Plain(Vec<Complex<T>>),
    Scaled(Vec<Complex<f64>>),
}

pub fn k_numeric<T: Real>(case: &Case) -> Outcome {
    let fft = match obtain::<T>(case) {
        Ok(f) => f,
        Err(o) => return o,
    };
    if let Err(o) = identity_ok(case, &fft) {
        return o;
    }
    let n = case.n;
    let input = make_input::<T>(&case.input, n, case.chunks);
    if n == 0 {
        return match transform(&*fft, case.entry, &input) {
            Ok(_) => Outcome::held(false).label("n=0"),
            Err(p) => Outcome::bad(format!("length-0 transform panicked on an empty buffer: {} @ {}", p.msg, p.loc)),
        };
    }
    // the output buffer of the two-buffer entry points starts out NaN-filled here only when a chunk is silent,
    // so that "nothing was written" cannot pass for "the DFT of zeros is zero"
    let any_silent = input.chunks(n).any(|ch| is_zero_vec(ch));
    let out = if any_silent {
        match transform_filled(&*fft, case.entry, &input, 0, Complex { re: T::of_f64(0.0), im: T::of_f64(0.0) }, fill_value(1)) {
            Ok(o) => o,
            Err(p) => return Outcome::bad(format!("well-shaped call panicked: {} @ {}", p.msg, p.loc)),
        }
    } else {
        match transform(&*fft, case.entry, &input) {
            Ok(o) => o,
            Err(p) => return Outcome::bad(format!("well-shaped call panicked: {} @ {}", p.msg, p.loc)),
        }
    };
    if is_zero_vec(&input) {
        // the DFT of the zero vector is the zero vector, exactly (a linear circuit of +,-,* on zeros)
        return match out.iter().position(|c| c.re.to_f64() != 0.0 || c.im.to_f64() != 0.0) {
            Some(j) => Outcome::bad(format!("all-zero input produced a non-zero/non-finite output: element {} is ({},{})", j, out[j].re, out[j].im)),
            None => Outcome::held(false).label("input:all-zero"),
        };
    }
    // extreme-scale inputs: judge (output * 2^-e) against the reference of the unscaled vector (exact rescaling)
    let xs = crate::gen::xscale_exp::<T>(&case.input.family, case.input.seed, n);
    let (reference, out) = match xs {
        Some(e) => {
            let mut base_case = case.clone();
            base_case.input = crate::gen::xscale_base(&case.input);
            let base = make_input::<T>(&base_case.input, n, case.chunks);
            let r = reference_for::<T>(&base_case, &base);
            let sc = (-(e as f64)).exp2();
            if let Some(j) = first_nonfinite(&out) {
                return Outcome::bad(format!(
                    "finite input scaled by 2^{} (all values normal, n^1.5*max|x| at least 2^24 below overflow) produced a non-finite output: element {} is ({},{})",
                    e, j, out[j].re, out[j].im
                ));
            }
            let scaled: Vec<Complex<f64>> = out.iter().map(|c| Complex { re: c.re.to_f64() * sc, im: c.im.to_f64() * sc }).collect();
            (r, OutVec::Scaled(scaled))
        }
        None => (reference_for::<T>(case, &input), OutVec::Plain(out)),
    };
    let b = bound(n, T::EPS);
    // p[0] = 1 selects the C02 bound itself
    let factor = if case.pget(0) == 1 { 1.0 } else { tolerance_factor(&case.prop) };
    let mut worst = 0.0f64;
    let out_pairs: Vec<(f64, f64)> = match &out {
        OutVec::Plain(o) => to_pairs(o),
        OutVec::Scaled(o) => o.iter().map(|c| (c.re, c.im)).collect(),
    };
    for (ci, (o, r)) in out_pairs.chunks(n).zip(reference.chunks(n)).enumerate() {
        if is_zero_vec(&input[ci * n..(ci + 1) * n]) {
            if let Some(j) = o.iter().position(|c| c.0 != 0.0 || c.1 != 0.0) {
                return Outcome::bad(format!("silent (all-zero) chunk {} produced a non-zero/non-finite output: element {} is ({},{})", ci, j, o[j].0, o[j].1));
            }
            continue;
        }
        let e = refdft::rel_l2(o, r);
        if !(e <= factor * b) {
            // locate the worst element for the report
            let nr = refdft::norm2(r);
            let (mut wk, mut wd) = (0usize, 0.0f64);
            for (k, (ov, rv)) in o.iter().zip(r.iter()).enumerate() {
                let d = ((ov.0 - rv.re.hi).powi(2) + (ov.1 - rv.im.hi).powi(2)).sqrt();
                if d > wd || d.is_nan() {
                    wd = d;
                    wk = k;
                }
            }
            return Outcome::bad(format!(
                "output differs from the DFT{}: relL2 error {:.3e} > {}*B = {:.3e} (B=16*eps*log2(2n)) in chunk {}; worst index k={} got ({:e},{:e}) want ({:.9e},{:.9e}), |diff|/||Y||={:.3e}",
                match xs {
                    Some(e) => format!(" (input = ordinary dense vector * 2^{}, output compared after the exact rescaling by 2^{})", e, -e),
                    None => String::new(),
                },
                e, factor, factor * b, ci, wk, o[wk].0, o[wk].1, r[wk].re.hi, r[wk].im.hi, wd / nr
            ));
        }
        worst = worst.max(e / b);
    }
    Outcome::held(n >= 2)
        .ratio(format!("relL2/B {:?} {}", case.planner, T::NAME), worst)
        .label(format!("len:{}", crate::gen::classify_len(n)))
        .label(format!("input:{}", case.input.family))
        .label(format!("entry:{:?}", case.entry))
}

// ---------------------------------------------------------------------------------------------
// kind "basis": the complete impulse basis of length n through one entry point (pins the whole matrix)

pub fn k_basis<T: Real>(case: &Case) -> Outcome {
    let fft = match obtain::<T>(case) {
        Ok(f) => f,
        Err(o) => return o,
    };
    if let Err(o) = identity_ok(case, &fft) {
        return o;
    }
    let n = case.n;
    if n == 0 {
        return Outcome::skip("n=0 has no basis");
    }
    let b = bound(n, T::EPS);
    let factor = tolerance_factor(&case.prop);
    let zero = Complex { re: T::of_f64(0.0), im: T::of_f64(0.0) };
    let one = Complex { re: T::of_f64(1.0), im: T::of_f64(0.0) };
    // twiddle table once
    let w: Vec<CDD> = impulse_column(n, 1, case.dir, (1.0, 0.0));
    let mut worst = 0.0f64;
    let mut input = vec![zero; n];
    for pos in 0..n {
        input[pos] = one;
        let out = match transform(&*fft, case.entry, &input) {
            Ok(o) => o,
            Err(p) => return Outcome::bad(format!("well-shaped call panicked on impulse {}: {} @ {}", pos, p.msg, p.loc)),
        };
        input[pos] = zero;
        // column: Y[k] = w[(pos*k) mod n]; ||Y||_2 = sqrt(n)
        let mut num = 0.0f64;
        let mut idx = 0usize;
        let mut worst_k = (0usize, 0.0f64);
        for k in 0..n {
            let r = w[idx];
            let dre = (out[k].re.to_f64() - r.re.hi) - r.re.lo;
            let dim = (out[k].im.to_f64() - r.im.hi) - r.im.lo;
            let d2 = dre * dre + dim * dim;
            if d2 > worst_k.1 || d2.is_nan() {
                worst_k = (k, d2);
            }
            num += d2;
            idx += pos;
            if idx >= n {
                idx -= n;
            }
        }
        let e = (num / n as f64).sqrt();
        if !(e <= factor * b) {
            let k = worst_k.0;
            let r = w[(pos * k) % n];
            return Outcome::bad(format!(
                "matrix column {} wrong: relL2 {:.3e} > {}*B = {:.3e}; entry [k={}, j={}] is ({},{}) but exp(-+2*pi*i*j*k/n) = ({:.9e},{:.9e})",
                pos, e, factor, factor * b, k, pos, out[k].re, out[k].im, r.re.hi, r.im.hi
            ));
        }
        worst = worst.max(e / b);
    }
    Outcome::held(n >= 2)
        .ratio(format!("basis relL2/B {:?} {}", case.planner, T::NAME), worst)
        .label(format!("len:{}", crate::gen::classify_len(n)))
        .label("input:whole-basis")
        .label(format!("entry:{:?}", case.entry))
}

// ---------------------------------------------------------------------------------------------
// kind "plan": C04 — planning does not panic, len()/direction right, n=0 accepts empty, n=1 identity

pub fn k_plan<T: Real>(case: &Case) -> Outcome {
    let fft = match obtain::<T>(case) {
        Ok(f) => f,
        Err(o) => return o,
    };
    if let Err(o) = identity_ok(case, &fft) {
        return o;
    }
    let n = case.n;
    // the three scratch lengths must be obtainable without panicking
    if let Err(p) = catch(|| (fft.get_inplace_scratch_len(), fft.get_outofplace_scratch_len(), fft.get_immutable_scratch_len())) {
        return Outcome::bad(format!("scratch length query panicked: {} @ {}", p.msg, p.loc));
    }
    if n == 0 {
        for e in ENTRIES {
            if let Err(p) = transform::<T>(&*fft, e, &[]) {
                return Outcome::bad(format!("length-0 transform rejected an empty buffer via {:?}: {} @ {}", e, p.msg, p.loc));
            }
        }
        return Outcome::held(false).label("n=0");
    }
    if n == 1 {
        let input = make_input::<T>(&InputSpec::fam("uniform", case.input.seed), 1, 3);
        for e in ENTRIES {
            match transform::<T>(&*fft, e, &input) {
                Ok(o) => {
                    // identity: numeric equality (a length-1 DFT has no arithmetic to round)
                    for (a, b) in o.iter().zip(input.iter()) {
                        if a.re.to_f64() != b.re.to_f64() || a.im.to_f64() != b.im.to_f64() {
                            return Outcome::bad(format!("length-1 transform is not the identity via {:?}: {:?} -> {:?}", e, b, a));
                        }
                    }
                }
                Err(p) => return Outcome::bad(format!("length-1 transform panicked via {:?}: {} @ {}", e, p.msg, p.loc)),
            }
        }
        return Outcome::held(false).label("n=1");
    }
    Outcome::held(true).label(format!("len:{}", crate::gen::classify_len(n)))
}

// ---------------------------------------------------------------------------------------------
// kind "planwindow": one planner reused over a window of consecutive lengths (C04)
// p[0] = first length, p[1] = count, p[2] = 1 -> alternate directions starting with case.dir

pub fn k_planwindow<T: Real>(case: &Case) -> Outcome {
    let start = case.pget(0) as usize;
    let count = case.pget(1) as usize;
    let alternate = case.pget(2) == 1;
    let mut pl = match AnyPlanner::<T>::new(case.planner) {
        Some(p) => p,
        None => return Outcome::skip(format!("planner {:?} unavailable in this configuration", case.planner)),
    };
    let mut dir = case.dir;
    let mut kept: Vec<Arc<dyn Fft<T>>> = vec![];
    for n in start..start + count {
        // alternate between the two public spellings of a request
        let r = if n % 2 == 0 { catch(|| pl.plan(n, dir)) } else { catch(|| pl.plan_named(n, dir)) };
        let f = match r {
            Ok(f) => f,
            Err(p) => return Outcome::bad(format!("planning n={} {:?} panicked on a reused planner (window {}..{}): {} @ {}", n, dir, start, start + count, p.msg, p.loc)),
        };
        if f.len() != n {
            return Outcome::bad(format!("planner reused over {}..{} returned len()={} for n={}", start, start + count, f.len(), n));
        }
        if Dir::from_fft(f.fft_direction()) != dir {
            return Outcome::bad(format!("planner reused over {}..{} returned direction {:?} for n={} {:?}", start, start + count, f.fft_direction(), n, dir));
        }
        if n % 64 == 0 {
            kept.push(f);
        }
        if alternate {
            dir = dir.other();
        }
    }
    drop(pl);
    // transforms kept past the planner still report the right identity
    for f in &kept {
        let _ = f.len();
    }
    Outcome::held(true).count("lengths planned on reused planners", count as u64)
}

// ---------------------------------------------------------------------------------------------
// kind "planonly": plan-report hook only, no construction (C04's 2^22 sweep)
// p[0] = first length, p[1] = count, p[2] = stride

pub fn k_planonly<T: Real>(case: &Case) -> Outcome {
    let start = case.pget(0) as usize;
    let count = case.pget(1) as usize;
    let stride = (case.pget(2) as usize).max(1);
    let mut pl = match AnyPlanner::<T>::new(case.planner) {
        Some(p) => p,
        None => return Outcome::skip(format!("planner {:?} unavailable in this configuration", case.planner)),
    };
    let mut parsed = 0u64;
    let mut unparsed = 0u64;
    let mut n = start;
    for _ in 0..count {
        let text = match catch(|| pl.plan_text(n, case.dir)) {
            Ok(t) => t,
            Err(p) => return Outcome::bad(format!("designing a plan for n={} panicked: {} @ {}", n, p.msg, p.loc)),
        };
        match crate::plantext::analyse(&text) {
            Some(info) => {
                parsed += 1;
                if info.len != n as u64 {
                    return Outcome::bad(format!("plan designed for n={} has length {}: {}", n, info.len, truncate(&text, 300)));
                }
            }
            None => unparsed += 1,
        }
        n += stride;
    }
    Outcome::held(true).count("plan-only lengths parsed", parsed).count("plan-only lengths with unparsed plan text (not judged)", unparsed)
}

pub fn truncate(s: &str, n: usize) -> String {
    if s.len() <= n {
        s.to_string()
    } else {
        format!("{}...", &s[..n])
    }
}
