//! Parser for the `Debug` text of a planner's plan (hook H2): recipes of the scalar/SSE planners and
//! `MixedRadixPlan` of the AVX planner. Used for labels, the plan-only sweep (C04) and the structural
//! "no naive node" clause (C05). Anything it does not understand is reported as `None` (not judged).
#[derive(Clone, Debug, PartialEq)]
pub enum PNode {
    Num(u64),
    List(Vec<PNode>),
    Node { name: String, args: Vec<PNode>, fields: Vec<(String, PNode)> },
}

struct P<'a> {
    s: &'a [u8],
    i: usize,
}
impl<'a> P<'a> {
    fn ws(&mut self) {
        while self.i < self.s.len() && (self.s[self.i] as char).is_whitespace() {
            self.i += 1;
        }
    }
    fn peek(&mut self) -> Option<u8> {
        self.ws();
        self.s.get(self.i).copied()
    }
    fn eat(&mut self, c: u8) -> bool {
        if self.peek() == Some(c) {
            self.i += 1;
            true
        } else {
            false
        }
    }
    fn ident(&mut self) -> Option<String> {
        self.ws();
        let st = self.i;
        while self.i < self.s.len() && ((self.s[self.i] as char).is_alphanumeric() || self.s[self.i] == b'_') {
            self.i += 1;
        }
        if self.i > st {
            Some(String::from_utf8_lossy(&self.s[st..self.i]).to_string())
        } else {
            None
        }
    }
    fn value(&mut self) -> Option<PNode> {
        match self.peek()? {
            b'[' => {
                self.i += 1;
                let mut v = vec![];
                loop {
                    if self.eat(b']') {
                        break;
                    }
                    v.push(self.value()?);
                    self.eat(b',');
                }
                Some(PNode::List(v))
            }
            c if (c as char).is_ascii_digit() => {
                let id = self.ident()?;
                id.parse::<u64>().ok().map(PNode::Num)
            }
            _ => {
                let name = self.ident()?;
                let mut args = vec![];
                let mut fields = vec![];
                if self.eat(b'(') {
                    loop {
                        if self.eat(b')') {
                            break;
                        }
                        args.push(self.value()?);
                        self.eat(b',');
                    }
                } else if self.eat(b'{') {
                    loop {
                        if self.eat(b'}') {
                            break;
                        }
                        let f = self.ident()?;
                        if !self.eat(b':') {
                            return None;
                        }
                        let v = self.value()?;
                        fields.push((f, v));
                        self.eat(b',');
                    }
                }
                Some(PNode::Node { name, args, fields })
            }
        }
    }
}

pub fn parse(text: &str) -> Option<PNode> {
    let mut p = P { s: text.as_bytes(), i: 0 };
    let v = p.value()?;
    p.ws();
    if p.i == p.s.len() {
        Some(v)
    } else {
        None
    }
}

fn field<'a>(fields: &'a [(String, PNode)], name: &str) -> Option<&'a PNode> {
    fields.iter().find(|(f, _)| f == name).map(|(_, v)| v)
}
fn num(n: &PNode) -> Option<u64> {
    match n {
        PNode::Num(x) => Some(*x),
        _ => None,
    }
}

/// Summary of a plan: total length, node names, the naive-DFT node lengths, twiddle moduli of portable nodes
#[derive(Default, Debug, Clone)]
pub struct PlanInfo {
    pub len: u64,
    pub nodes: Vec<String>,
    pub dft_lens: Vec<u64>,
    pub node_lens: Vec<u64>,
    pub bluestein: Vec<(u64, u64)>,
    pub raders: Vec<u64>,
    pub cache_base: Option<u64>,
    pub radixes: Vec<u64>,
}

fn walk(n: &PNode, info: &mut PlanInfo) -> Option<u64> {
    let (name, args, fields) = match n {
        PNode::Node { name, args, fields } => (name.as_str(), args, fields),
        _ => return None,
    };
    info.nodes.push(name.to_string());
    let len = if name == "Dft" {
        let k = num(args.first()?)?;
        info.dft_lens.push(k);
        k
    } else if let Some(rest) = name.strip_prefix("Butterfly") {
        if rest.is_empty() {
            return None;
        }
        rest.parse::<u64>().ok()?
    } else if name == "PrimeButterfly" {
        num(field(fields, "len")?)?
    } else if matches!(name, "MixedRadix" | "GoodThomasAlgorithm" | "MixedRadixSmall" | "GoodThomasAlgorithmSmall") {
        let a = walk(field(fields, "left_fft")?, info)?;
        let b = walk(field(fields, "right_fft")?, info)?;
        a.checked_mul(b)?
    } else if name == "RadersAlgorithm" {
        let a = walk(field(fields, "inner_fft")?, info)?;
        info.raders.push(a + 1);
        a + 1
    } else if name == "BluesteinsAlgorithm" {
        let l = num(field(fields, "len")?)?;
        let inner = walk(field(fields, "inner_fft")?, info)?;
        info.bluestein.push((l, inner));
        l
    } else if name == "Radix4" {
        let k = num(field(fields, "k")?)?;
        let b = walk(field(fields, "base_fft")?, info)?;
        b.checked_mul(1u64.checked_shl(2 * k as u32)?)?
    } else if name == "RadixN" {
        let b = walk(field(fields, "base_fft")?, info)?;
        let mut prod = b;
        match field(fields, "factors")? {
            PNode::List(v) => {
                for f in v {
                    if let PNode::Node { name, .. } = f {
                        let r = name.strip_prefix("Factor")?.parse::<u64>().ok()?;
                        prod = prod.checked_mul(r)?;
                    } else {
                        return None;
                    }
                }
            }
            _ => return None,
        }
        prod
    } else if name == "MixedRadixPlan" {
        let l = num(field(fields, "len")?)?;
        let mut prod = match field(fields, "base")? {
            PNode::Node { name, args, .. } => {
                info.nodes.push(name.clone());
                let b = num(args.first()?)?;
                match name.as_str() {
                    "ButterflyBase" => {}
                    "RadersBase" => info.raders.push(b),
                    "BluesteinsBase" => info.bluestein.push((b, num(args.get(1)?)?)),
                    "CacheBase" => info.cache_base = Some(b),
                    _ => return None,
                }
                b
            }
            _ => return None,
        };
        match field(fields, "radixes")? {
            PNode::List(v) => {
                for r in v {
                    let r = num(r)?;
                    info.radixes.push(r);
                    prod = prod.checked_mul(r)?;
                }
            }
            _ => return None,
        }
        if prod != l {
            // the plan's own `len` field disagrees with base*radixes: report the product (the caller compares with n)
            return Some(prod);
        }
        l
    } else {
        return None;
    };
    info.node_lens.push(len);
    Some(len)
}

/// None if the text is not understood
pub fn analyse(text: &str) -> Option<PlanInfo> {
    let tree = parse(text)?;
    let mut info = PlanInfo::default();
    let len = walk(&tree, &mut info)?;
    info.len = len;
    Some(info)
}

#[cfg(test)]
mod tests {
    use super::*;
    #[test]
    fn parses() {
        let i = analyse("MixedRadix { left_fft: Butterfly4, right_fft: RadixN { factors: [Factor3, Factor4], base_fft: Butterfly9 } }").unwrap();
        assert_eq!(i.len, 4 * 9 * 12);
        let i = analyse("MixedRadixPlan { len: 4608, radixes: [8], base: CacheBase(576) }").unwrap();
        assert_eq!(i.len, 4608);
        assert_eq!(i.cache_base, Some(576));
        let i = analyse("BluesteinsAlgorithm { len: 59, inner_fft: Radix4 { k: 1, base_fft: Butterfly32 } }").unwrap();
        assert_eq!(i.len, 59);
        assert_eq!(i.bluestein, vec![(59, 128)]);
        assert_eq!(analyse("Dft(0)").unwrap().len, 0);
    }
}
