//! Reference DFTs that share no code with rustfft.
//!  R1: naive O(n^2) DFT in double-double arithmetic (the "obviously correct" one).
//!  R2: radix-2 + Bluestein FFT, generic over {f64, DD}; validated against R1 by `self_check`.
use crate::dd::{cos_sin_2pi, CDD, DD};
use crate::types::Dir;
use std::cell::RefCell;
use std::collections::HashMap;
use std::ops::{Add, Mul, Neg, Sub};
use std::rc::Rc;

pub trait Sc:
    Copy + Add<Output = Self> + Sub<Output = Self> + Mul<Output = Self> + Neg<Output = Self> + 'static
{
    fn from_dd(d: DD) -> Self;
    fn to_dd(self) -> DD;
    /// multiply by an exact power of two
    fn scale(self, f: f64) -> Self;
    fn zero() -> Self;
}
impl Sc for f64 {
    fn from_dd(d: DD) -> f64 {
        d.hi + d.lo
    }
    fn to_dd(self) -> DD {
        DD::from_f64(self)
    }
    fn scale(self, f: f64) -> f64 {
        self * f
    }
    fn zero() -> f64 {
        0.0
    }
}
impl Sc for DD {
    fn from_dd(d: DD) -> DD {
        d
    }
    fn to_dd(self) -> DD {
        self
    }
    fn scale(self, f: f64) -> DD {
        DD { hi: self.hi * f, lo: self.lo * f }
    }
    fn zero() -> DD {
        DD::ZERO
    }
}

#[derive(Copy, Clone, Debug)]
pub struct Cx<S> {
    pub re: S,
    pub im: S,
}
impl<S: Sc> Cx<S> {
    fn zero() -> Self {
        Cx { re: S::zero(), im: S::zero() }
    }
    fn conj(self) -> Self {
        Cx { re: self.re, im: -self.im }
    }
    fn mul(self, b: Self) -> Self {
        Cx { re: self.re * b.re - self.im * b.im, im: self.re * b.im + self.im * b.re }
    }
    fn add(self, b: Self) -> Self {
        Cx { re: self.re + b.re, im: self.im + b.im }
    }
    fn sub(self, b: Self) -> Self {
        Cx { re: self.re - b.re, im: self.im - b.im }
    }
}

thread_local! {
    // forward twiddles exp(-2 pi i k / N), k < N/2, in DD, per power-of-two N
    static TW_CACHE: RefCell<HashMap<usize, Rc<Vec<CDD>>>> = RefCell::new(HashMap::new());
}

fn pow2_twiddles(n: usize) -> Rc<Vec<CDD>> {
    TW_CACHE.with(|c| {
        if let Some(t) = c.borrow().get(&n) {
            return Rc::clone(t);
        }
        let t: Vec<CDD> = (0..n / 2)
            .map(|k| {
                let (c, s) = cos_sin_2pi(k as u64, n as u64);
                CDD { re: c, im: -s }
            })
            .collect();
        let t = Rc::new(t);
        let mut m = c.borrow_mut();
        if m.len() > 6 {
            m.clear();
        }
        m.insert(n, Rc::clone(&t));
        t
    })
}

/// in-place iterative radix-2 DIT; `inverse` selects exp(+...), no scaling
fn fft_pow2<S: Sc>(a: &mut [Cx<S>], inverse: bool) {
    let n = a.len();
    if n <= 1 {
        return;
    }
    assert!(n.is_power_of_two());
    let bits = n.trailing_zeros();
    for i in 0..n {
        let j = i.reverse_bits() >> (usize::BITS - bits);
        if j > i {
            a.swap(i, j);
        }
    }
    let tw = pow2_twiddles(n);
    let tw: Vec<Cx<S>> = tw
        .iter()
        .map(|t| {
            let c = Cx { re: S::from_dd(t.re), im: S::from_dd(t.im) };
            if inverse {
                c.conj()
            } else {
                c
            }
        })
        .collect();
    let mut len = 2;
    while len <= n {
        let half = len / 2;
        let step = n / len;
        let mut start = 0;
        while start < n {
            for k in 0..half {
                let w = tw[k * step];
                let u = a[start + k];
                let v = a[start + k + half].mul(w);
                a[start + k] = u.add(v);
                a[start + k + half] = u.sub(v);
            }
            start += len;
        }
        len *= 2;
    }
}

/// Unnormalised DFT of any length: X[k] = sum_j x[j] exp(-+ 2 pi i j k / n)
pub fn fft_any<S: Sc>(x: &[Cx<S>], dir: Dir) -> Vec<Cx<S>> {
    let n = x.len();
    let inverse = dir == Dir::Inv;
    if n <= 1 {
        return x.to_vec();
    }
    if n.is_power_of_two() {
        let mut a = x.to_vec();
        fft_pow2(&mut a, inverse);
        return a;
    }
    // Bluestein: w^{jk} = c_j c_k conj(c_{k-j}), c_j = exp(-+ pi i j^2 / n)
    let m = (2 * n - 1).next_power_of_two();
    let two_n = 2 * n as u64;
    let chirp: Vec<Cx<S>> = (0..n as u64)
        .map(|j| {
            let e = ((j as u128 * j as u128) % two_n as u128) as u64;
            let (c, s) = cos_sin_2pi(e, two_n);
            let v = Cx { re: S::from_dd(c), im: S::from_dd(-s) };
            if inverse {
                v.conj()
            } else {
                v
            }
        })
        .collect();
    let mut a = vec![Cx::<S>::zero(); m];
    let mut b = vec![Cx::<S>::zero(); m];
    for j in 0..n {
        a[j] = x[j].mul(chirp[j]);
        let cj = chirp[j].conj();
        b[j] = cj;
        if j > 0 {
            b[m - j] = cj;
        }
    }
    fft_pow2(&mut a, false);
    fft_pow2(&mut b, false);
    for i in 0..m {
        a[i] = a[i].mul(b[i]);
    }
    fft_pow2(&mut a, true);
    let inv_m = 1.0 / m as f64;
    (0..n)
        .map(|k| {
            let v = a[k].mul(chirp[k]);
            Cx { re: v.re.scale(inv_m), im: v.im.scale(inv_m) }
        })
        .collect()
}

#[derive(Copy, Clone, Debug, PartialEq, Eq)]
pub enum Prec {
    /// reference computed in f64 (enough for f32 results: error ~1e-16*log n)
    F64,
    /// reference computed in double-double (for f64 results)
    DD,
}

/// Reference DFT of `x` (given as exact f64 pairs)
pub fn reference(x: &[(f64, f64)], dir: Dir, prec: Prec) -> Vec<CDD> {
    match prec {
        Prec::F64 => {
            let v: Vec<Cx<f64>> = x.iter().map(|&(re, im)| Cx { re, im }).collect();
            fft_any(&v, dir).into_iter().map(|c| CDD::from_f64(c.re, c.im)).collect()
        }
        Prec::DD => {
            let v: Vec<Cx<DD>> =
                x.iter().map(|&(re, im)| Cx { re: DD::from_f64(re), im: DD::from_f64(im) }).collect();
            fft_any(&v, dir).into_iter().map(|c| CDD { re: c.re, im: c.im }).collect()
        }
    }
}

/// R1: naive DFT in DD
pub fn naive_dd(x: &[(f64, f64)], dir: Dir) -> Vec<CDD> {
    let n = x.len();
    if n == 0 {
        return vec![];
    }
    let w: Vec<CDD> = (0..n)
        .map(|k| {
            let (c, s) = cos_sin_2pi(k as u64, n as u64);
            match dir {
                Dir::Fwd => CDD { re: c, im: -s },
                Dir::Inv => CDD { re: c, im: s },
            }
        })
        .collect();
    (0..n)
        .map(|k| {
            let mut acc = CDD::ZERO;
            let mut idx = 0usize;
            for j in 0..n {
                acc = acc + CDD::from_f64(x[j].0, x[j].1) * w[idx];
                idx += k;
                if idx >= n {
                    idx -= n;
                }
            }
            acc
        })
        .collect()
}

/// relative L2 distance between two DD vectors
pub fn rel_l2_dd(a: &[CDD], b: &[CDD]) -> f64 {
    let mut num = DD::ZERO;
    let mut den = DD::ZERO;
    for (p, q) in a.iter().zip(b) {
        let d = *p - *q;
        num = num + d.re * d.re + d.im * d.im;
        den = den + q.re * q.re + q.im * q.im;
    }
    if den.hi == 0.0 {
        return if num.hi == 0.0 { 0.0 } else { f64::INFINITY };
    }
    (num.to_f64() / den.to_f64()).sqrt()
}

/// ||out - reference||_2 / ||reference||_2 with `out` given in f64 (exact conversion of f32/f64 results)
pub fn rel_l2(out: &[(f64, f64)], reference: &[CDD]) -> f64 {
    assert_eq!(out.len(), reference.len());
    let mut num = 0.0f64;
    let mut den = 0.0f64;
    for (o, r) in out.iter().zip(reference) {
        // (o - r.hi) is exact or nearly so when o is close to r; then subtract r.lo
        let dre = (o.0 - r.re.hi) - r.re.lo;
        let dim = (o.1 - r.im.hi) - r.im.lo;
        num += dre * dre + dim * dim;
        den += r.re.hi * r.re.hi + r.im.hi * r.im.hi;
    }
    if !(num.is_finite()) {
        return f64::INFINITY;
    }
    if den == 0.0 {
        return if num == 0.0 { 0.0 } else { f64::INFINITY };
    }
    (num / den).sqrt()
}

pub fn norm2(reference: &[CDD]) -> f64 {
    reference.iter().map(|r| r.re.hi * r.re.hi + r.im.hi * r.im.hi).sum::<f64>().sqrt()
}

/// Validate R2 against R1 on a fixed and a seeded set of lengths. Returns (worst DD disagreement, worst f64 disagreement).
pub fn self_check(seed: u64) -> Result<(f64, f64), String> {
    let mut lens: Vec<usize> = vec![1, 2, 3, 4, 5, 7, 8, 12, 16, 31, 64, 97, 100, 127, 128, 243, 255, 256, 257, 360, 509];
    let mut s = seed | 1;
    for _ in 0..4 {
        s = crate::gen::splitmix(s);
        lens.push(2 + (s % 700) as usize);
    }
    let mut worst_dd = 0.0f64;
    let mut worst_f64 = 0.0f64;
    for &n in &lens {
        for &dir in &[Dir::Fwd, Dir::Inv] {
            let mut st = crate::gen::splitmix(seed ^ (n as u64) << 8);
            let x: Vec<(f64, f64)> = (0..n)
                .map(|_| {
                    st = crate::gen::splitmix(st);
                    let a = (st >> 11) as f64 / (1u64 << 53) as f64 - 0.5;
                    st = crate::gen::splitmix(st);
                    let b = (st >> 11) as f64 / (1u64 << 53) as f64 - 0.5;
                    (a, b)
                })
                .collect();
            let r1 = naive_dd(&x, dir);
            let r2 = reference(&x, dir, Prec::DD);
            let r3 = reference(&x, dir, Prec::F64);
            worst_dd = worst_dd.max(rel_l2_dd(&r2, &r1));
            worst_f64 = worst_f64.max(rel_l2_dd(&r3, &r1));
        }
    }
    if !(worst_dd < 1e-25) {
        return Err(format!("reference self-check failed: R2<DD> vs R1 = {:e}", worst_dd));
    }
    if !(worst_f64 < 1e-13) {
        return Err(format!("reference self-check failed: R2<f64> vs R1 = {:e}", worst_f64));
    }
    Ok((worst_dd, worst_f64))
}
