//! Double-double arithmetic (~106-bit significand) and accurate twiddle factors.
//! Shares no code with rustfft. Used as the high-precision reference for f64 results.
use std::ops::{Add, Mul, Neg, Sub};

#[derive(Copy, Clone, Debug, PartialEq)]
pub struct DD {
    pub hi: f64,
    pub lo: f64,
}

#[inline]
fn two_sum(a: f64, b: f64) -> (f64, f64) {
    let s = a + b;
    let bb = s - a;
    let e = (a - (s - bb)) + (b - bb);
    (s, e)
}
#[inline]
fn quick_two_sum(a: f64, b: f64) -> (f64, f64) {
    let s = a + b;
    let e = b - (s - a);
    (s, e)
}
#[inline]
fn two_prod(a: f64, b: f64) -> (f64, f64) {
    let p = a * b;
    let e = a.mul_add(b, -p);
    (p, e)
}

impl DD {
    pub const ZERO: DD = DD { hi: 0.0, lo: 0.0 };
    pub const ONE: DD = DD { hi: 1.0, lo: 0.0 };
    /// pi to double-double precision
    pub const PI: DD = DD { hi: 3.141592653589793, lo: 1.2246467991473532e-16 };
    #[inline]
    pub fn from_f64(x: f64) -> DD {
        DD { hi: x, lo: 0.0 }
    }
    #[inline]
    pub fn to_f64(self) -> f64 {
        self.hi + self.lo
    }
    #[inline]
    pub fn mul_f64(self, b: f64) -> DD {
        let (p, e) = two_prod(self.hi, b);
        let e = e + self.lo * b;
        let (hi, lo) = quick_two_sum(p, e);
        DD { hi, lo }
    }
    pub fn div_f64(self, b: f64) -> DD {
        // one Newton-style correction step
        let q1 = self.hi / b;
        let (p, e) = two_prod(q1, b);
        let r = ((self.hi - p) - e) + self.lo;
        let q2 = r / b;
        let (hi, lo) = quick_two_sum(q1, q2);
        // second correction
        let prod = DD { hi, lo }.mul_f64(b);
        let rem = self - prod;
        let q3 = rem.hi / b;
        let (hi2, lo2) = two_sum(hi, lo + q3);
        DD { hi: hi2, lo: lo2 }
    }
    pub fn abs(self) -> DD {
        if self.hi < 0.0 {
            -self
        } else {
            self
        }
    }
    pub fn sqrt(self) -> DD {
        if self.hi <= 0.0 {
            return DD::ZERO;
        }
        let x = 1.0 / self.hi.sqrt();
        let ax = self.hi * x;
        let diff = self - DD::from_f64(ax) * DD::from_f64(ax);
        let (hi, lo) = two_sum(ax, diff.hi * (x * 0.5));
        DD { hi, lo }
    }
}
impl Add for DD {
    type Output = DD;
    #[inline]
    fn add(self, b: DD) -> DD {
        let (s, e) = two_sum(self.hi, b.hi);
        let (t, f) = two_sum(self.lo, b.lo);
        let e = e + t;
        let (s, e) = quick_two_sum(s, e);
        let e = e + f;
        let (hi, lo) = quick_two_sum(s, e);
        DD { hi, lo }
    }
}
impl Neg for DD {
    type Output = DD;
    #[inline]
    fn neg(self) -> DD {
        DD { hi: -self.hi, lo: -self.lo }
    }
}
impl Sub for DD {
    type Output = DD;
    #[inline]
    fn sub(self, b: DD) -> DD {
        self + (-b)
    }
}
impl Mul for DD {
    type Output = DD;
    #[inline]
    fn mul(self, b: DD) -> DD {
        let (p, e) = two_prod(self.hi, b.hi);
        let e = e + (self.hi * b.lo + self.lo * b.hi);
        let (hi, lo) = quick_two_sum(p, e);
        DD { hi, lo }
    }
}

/// (cos, sin) of theta = pi * m / (4 * n) for 0 <= m <= n, i.e. theta in [0, pi/4], by Taylor series in DD
fn cos_sin_octant(m: u64, n: u64) -> (DD, DD) {
    if m == 0 {
        return (DD::ONE, DD::ZERO);
    }
    let theta = DD::PI.mul_f64(m as f64).div_f64(4.0 * n as f64);
    let t2 = theta * theta;
    // sin = theta * sum (-1)^k t2^k/(2k+1)!, cos = sum (-1)^k t2^k/(2k)!
    let mut cos = DD::ONE;
    let mut sin = DD::ONE;
    let mut term_c = DD::ONE;
    let mut term_s = DD::ONE;
    for k in 1..24u32 {
        let kc = ((2 * k - 1) * (2 * k)) as f64;
        let ks = ((2 * k) * (2 * k + 1)) as f64;
        term_c = -(term_c * t2).div_f64(kc);
        term_s = -(term_s * t2).div_f64(ks);
        cos = cos + term_c;
        sin = sin + term_s;
        if term_c.hi.abs() < 1e-40 && term_s.hi.abs() < 1e-40 {
            break;
        }
    }
    (cos, sin * theta)
}

/// (cos, sin)(2*pi*j/n) in double-double precision, via exact integer octant reduction.
pub fn cos_sin_2pi(j: u64, n: u64) -> (DD, DD) {
    debug_assert!(n > 0);
    let j = (j % n) as u128;
    let n8 = n as u128;
    // angle = 2*pi*j/n = (pi/4) * (8j/n); octant = floor(8j/n)
    let eight_j = 8 * j;
    let oct = (eight_j / n8) as u64; // 0..7
    let rem = (eight_j - (oct as u128) * n8) as u64; // in [0, n)
    // within-octant angle phi = (pi/4) * rem/n
    let (c, s) = if oct % 2 == 0 {
        cos_sin_octant(rem, n)
    } else {
        // use the complement so that the series argument stays in [0, pi/4]
        let (c, s) = cos_sin_octant(n - rem, n);
        // cos(pi/4*(1 - x))... handled below by swapping
        (s, c)
    };
    // for even octants: angle = oct*pi/4 + phi, (c,s) = (cos phi, sin phi)
    // for odd octants: angle = (oct+1)*pi/4 - psi with psi = pi/4*(n-rem)/n; we stored (c,s) = (sin psi, cos psi)
    // Let base = oct/2 (quadrant). Define within-quadrant angle a = angle - quadrant*pi/2.
    //  even octant: a = phi            -> cos a = cos phi, sin a = sin phi
    //  odd octant:  a = pi/2 - psi     -> cos a = sin psi, sin a = cos psi   (already swapped above)
    let quadrant = oct / 2;
    match quadrant {
        0 => (c, s),
        1 => (-s, c),
        2 => (-c, -s),
        _ => (s, -c),
    }
}

#[derive(Copy, Clone, Debug, PartialEq)]
pub struct CDD {
    pub re: DD,
    pub im: DD,
}
impl CDD {
    pub const ZERO: CDD = CDD { re: DD::ZERO, im: DD::ZERO };
    pub fn from_f64(re: f64, im: f64) -> CDD {
        CDD { re: DD::from_f64(re), im: DD::from_f64(im) }
    }
    pub fn conj(self) -> CDD {
        CDD { re: self.re, im: -self.im }
    }
}
impl Add for CDD {
    type Output = CDD;
    #[inline]
    fn add(self, b: CDD) -> CDD {
        CDD { re: self.re + b.re, im: self.im + b.im }
    }
}
impl Sub for CDD {
    type Output = CDD;
    #[inline]
    fn sub(self, b: CDD) -> CDD {
        CDD { re: self.re - b.re, im: self.im - b.im }
    }
}
impl Mul for CDD {
    type Output = CDD;
    #[inline]
    fn mul(self, b: CDD) -> CDD {
        CDD { re: self.re * b.re - self.im * b.im, im: self.re * b.im + self.im * b.re }
    }
}

#[cfg(test)]
mod tests {
    use super::*;
    #[test]
    fn twiddle_identities() {
        for &n in &[1u64, 2, 3, 4, 5, 7, 8, 12, 16, 17, 100, 1023, 4096] {
            for j in 0..n {
                let (c, s) = cos_sin_2pi(j, n);
                let one = c * c + s * s - DD::ONE;
                assert!(one.hi.abs() < 1e-30, "n={} j={} {:?}", n, j, one);
                let a = 2.0 * std::f64::consts::PI * j as f64 / n as f64;
                assert!((c.hi - a.cos()).abs() < 1e-13 && (s.hi - a.sin()).abs() < 1e-13);
            }
        }
    }
}
