//! History (C10), concurrency (C11) and configuration (C13) checks.
use crate::checks::*;
use crate::exec::*;
use crate::gen::{make_input, mix, to_pairs};
use crate::plantext;
use crate::refdft;
use crate::types::*;
use rustfft::num_complex::Complex;
use rustfft::{Fft, FftPlannerAvx, FftPlannerSse};
use std::collections::HashSet;
use std::sync::{Arc, Barrier};

fn l2<T: Real>(v: &[Complex<T>]) -> f64 {
    v.iter().map(|c| c.re.to_f64().powi(2) + c.im.to_f64().powi(2)).sum::<f64>().sqrt()
}
fn bits_eq<T: Real>(a: &[Complex<T>], b: &[Complex<T>]) -> bool {
    a.len() == b.len() && a.iter().zip(b).all(|(x, y)| x.re.bits() == y.re.bits() && x.im.bits() == y.im.bits())
}

// ---------------------------------------------------------------------------------------------
// kind "history" (C10): one planner fed the whole request sequence; EVERY returned transform is judged.

pub fn k_history<T: Real>(case: &Case) -> Outcome {
    let reqs = match &case.source {
        Source::History { reqs, .. } => reqs.clone(),
        _ => return Outcome::skip("not a history case"),
    };
    let mut pl = match AnyPlanner::<T>::new(case.planner) {
        Some(p) => p,
        None => return Outcome::skip(format!("planner {:?} unavailable in this configuration", case.planner)),
    };
    let mut twin = AnyPlanner::<T>::new(case.planner).unwrap();
    let mut got: Vec<Arc<dyn Fft<T>>> = vec![];
    let mut got_twin: Vec<Arc<dyn Fft<T>>> = vec![];
    // labelling only: which requests are spliced onto earlier cache entries
    let mut built_lens: HashSet<(u64, Dir)> = HashSet::new();
    let mut rewritten = 0u64;
    let mut repeats = 0u64;
    for (i, r) in reqs.iter().enumerate() {
        let text = catch(|| pl.plan_text(r.n, r.dir)).unwrap_or_default();
        if let Some(info) = plantext::analyse(&text) {
            if let Some(b) = info.cache_base {
                if b as usize == r.n {
                    repeats += 1;
                } else {
                    rewritten += 1;
                }
            } else if info.nodes.first().map(|s| s != "MixedRadixPlan").unwrap_or(false) {
                // scalar / SSE: a sub-recipe whose length an earlier request already built in this direction
                if built_lens.contains(&(r.n as u64, r.dir)) {
                    repeats += 1;
                } else if info.node_lens.iter().any(|l| *l != r.n as u64 && built_lens.contains(&(*l, r.dir))) {
                    rewritten += 1;
                }
                for l in &info.node_lens {
                    built_lens.insert((*l, r.dir));
                }
            }
        }
        let f = match catch(|| pl.plan(r.n, r.dir)) {
            Ok(f) => f,
            Err(p) => return Outcome::bad(format!("request #{} (n={}, {:?}) panicked after {} earlier request(s): {} @ {}", i, r.n, r.dir, i, p.msg, p.loc)),
        };
        let f2 = match catch(|| twin.plan(r.n, r.dir)) {
            Ok(f) => f,
            Err(p) => return Outcome::bad(format!("twin planner: request #{} (n={}, {:?}) panicked: {} @ {}", i, r.n, r.dir, p.msg, p.loc)),
        };
        if f.len() != r.n || Dir::from_fft(f.fft_direction()) != r.dir {
            return Outcome::bad(format!(
                "request #{} for (n={}, {:?}) returned a transform reporting (len {}, {:?}) after earlier requests {:?}",
                i, r.n, r.dir, f.len(), f.fft_direction(), reqs[..i].iter().map(|q| (q.n, q.dir)).collect::<Vec<_>>()
            ));
        }
        got.push(f);
        got_twin.push(f2);
    }
    // transforms must stay valid after the planner is dropped
    drop(pl);
    drop(twin);
    let mut worst = 0.0f64;
    for (i, r) in reqs.iter().enumerate() {
        let n = r.n;
        if n == 0 {
            continue;
        }
        let f = &got[i];
        let b = bound(n, T::EPS);
        // inputs depend on (n, direction) only, so that the reference DFT is shared by all histories of a worker
        let dsalt = if r.dir == Dir::Fwd { 0 } else { 1 };
        for (vi, spec) in [InputSpec::fam("uniform", 2 * n as u64 + dsalt), InputSpec::fam("impulse", 1)].iter().enumerate() {
            let input = make_input::<T>(spec, n, 1);
            let entry = ENTRIES[(i + vi + case.input.seed as usize) % 4];
            // exact-scratch call through a rotating entry point
            let out = match transform(&**f, entry, &input) {
                Ok(o) => o,
                Err(p) => return Outcome::bad(format!("transform returned for request #{} (n={}, {:?}) panicked on a well-shaped call via {:?}: {} @ {}", i, n, r.dir, entry, p.msg, p.loc)),
            };
            let mut c2 = case.clone();
            c2.n = n;
            c2.dir = r.dir;
            c2.chunks = 1;
            c2.input = spec.clone();
            let reference = reference_for::<T>(&c2, &input);
            let e = refdft::rel_l2(&to_pairs(&out), &reference);
            // dense vector: C02's bound itself; impulse: C01's tolerance
            let limit = if vi == 0 { b } else { 4.0 * b };
            if !(e <= limit) {
                return Outcome::bad(format!(
                    "transform returned for request #{} (n={}, {:?}) is not the DFT: relL2 {:.3e} > {:.3e} via {:?}; earlier requests {:?}",
                    i, n, r.dir, e, limit, entry, reqs[..i].iter().map(|q| (q.n, q.dir)).collect::<Vec<_>>()
                ));
            }
            worst = worst.max(e / b);
            // the last request of a history also through the other three entry points,
            // each with exactly its advertised scratch: a spliced inner transform with unusual scratch needs shows here
            if vi == 0 && i + 1 == reqs.len() {
                for e2 in ENTRIES {
                    if e2 == entry {
                        continue;
                    }
                    let o2 = match transform(&**f, e2, &input) {
                        Ok(o) => o,
                        Err(p) => {
                            return Outcome::bad(format!(
                                "transform returned for request #{} (n={}, {:?}) panicked on a well-shaped call via {:?} (exactly the advertised scratch): {} @ {}; earlier requests {:?}",
                                i, n, r.dir, e2, p.msg, p.loc, reqs[..i].iter().map(|q| (q.n, q.dir)).collect::<Vec<_>>()
                            ))
                        }
                    };
                    let e2err = refdft::rel_l2(&to_pairs(&o2), &reference);
                    if !(e2err <= b) {
                        return Outcome::bad(format!(
                            "transform returned for request #{} (n={}, {:?}) is not the DFT via {:?}: relL2 {:.3e} > {:.3e}; earlier requests {:?}",
                            i, n, r.dir, e2, e2err, b, reqs[..i].iter().map(|q| (q.n, q.dir)).collect::<Vec<_>>()
                        ));
                    }
                }
            }
            // two planners fed the same history: bit-identical outputs
            let out2 = match transform(&*got_twin[i], entry, &input) {
                Ok(o) => o,
                Err(p) => return Outcome::bad(format!("twin planner's transform #{} panicked: {} @ {}", i, p.msg, p.loc)),
            };
            if !bits_eq(&out, &out2) {
                return Outcome::bad(format!("two planners fed the same {} requests returned transforms with different output bits for request #{} (n={}, {:?})", reqs.len(), i, n, r.dir));
            }
        }
        // C06 whenever the opposite direction of this length was also returned
        if let Some(j) = reqs.iter().position(|q| q.n == n && q.dir != r.dir) {
            if j > i {
                let x = make_input::<T>(&InputSpec::fam("uniform", mix(case.input.seed, 77)), n, 1);
                let y = match transform(&**f, Entry::Inplace, &x) {
                    Ok(o) => o,
                    Err(p) => return Outcome::bad(format!("panic: {} @ {}", p.msg, p.loc)),
                };
                let z = match transform(&*got[j], Entry::Outofplace, &y) {
                    Ok(o) => o,
                    Err(p) => return Outcome::bad(format!("panic: {} @ {}", p.msg, p.loc)),
                };
                let nx = l2(&x);
                let d: f64 = z
                    .iter()
                    .zip(&x)
                    .map(|(a, c)| (a.re.to_f64() - n as f64 * c.re.to_f64()).powi(2) + (a.im.to_f64() - n as f64 * c.im.to_f64()).powi(2))
                    .sum::<f64>()
                    .sqrt()
                    / (n as f64 * nx);
                if !(d <= 2.5 * b) {
                    return Outcome::bad(format!("requests #{} and #{} (n={}, both directions) do not undo each other: error {:.3e} > 2.5*B", i, j, n, d));
                }
            }
        }
    }
    Outcome::held(rewritten > 0)
        .ratio(format!("history relL2/B {:?} {}", case.planner, T::NAME), worst)
        .count("requests judged", reqs.len() as u64)
        .count("requests spliced onto an earlier cache entry", rewritten)
        .count("repeated requests served from cache", repeats)
        .label(format!("history length:{}", reqs.len()))
}

// ---------------------------------------------------------------------------------------------
// kind "planlife" (C10): the caller DROPS every returned transform before the next request (a planner whose cache only
// borrows what callers keep alive, or whose bookkeeping outlives an entry, shows here and nowhere else). Every returned
// transform is checked for len/direction and against the analytic DFT column of a unit impulse (O(n), so lengths in the
// millions are affordable), plus a dense vector when n <= 2^16.
pub fn k_planlife<T: Real>(case: &Case) -> Outcome {
    let reqs = match &case.source {
        Source::History { reqs, .. } => reqs.clone(),
        _ => return Outcome::skip("not a history case"),
    };
    let mut pl = match AnyPlanner::<T>::new(case.planner) {
        Some(p) => p,
        None => return Outcome::skip(format!("planner {:?} unavailable in this configuration", case.planner)),
    };
    let mut worst = 0.0f64;
    for (i, r) in reqs.iter().enumerate() {
        let earlier = || reqs[..i].iter().map(|q| (q.n, q.dir)).collect::<Vec<_>>();
        let f = match catch(|| if i % 2 == 0 { pl.plan(r.n, r.dir) } else { pl.plan_named(r.n, r.dir) }) {
            Ok(f) => f,
            Err(p) => {
                return Outcome::bad(format!(
                    "request #{} (n={}, {:?}) panicked; every earlier transform had been dropped by the caller before the next request; earlier requests {:?}: {} @ {}",
                    i, r.n, r.dir, earlier(), p.msg, p.loc
                ))
            }
        };
        if f.len() != r.n || Dir::from_fft(f.fft_direction()) != r.dir {
            return Outcome::bad(format!("request #{} for (n={}, {:?}) returned a transform reporting (len {}, {:?}) after earlier (dropped) requests {:?}", i, r.n, r.dir, f.len(), f.fft_direction(), earlier()));
        }
        let n = r.n;
        if n == 0 {
            continue;
        }
        let b = bound(n, T::EPS);
        let mut specs = vec![InputSpec::fam("impulse", 1 + (case.input.seed % 7))];
        if n <= 1 << 16 {
            specs.push(InputSpec::fam("uniform", 2 * n as u64));
        }
        for (vi, spec) in specs.iter().enumerate() {
            let input = make_input::<T>(spec, n, 1);
            let entry = ENTRIES[(i + vi + case.input.seed as usize) % 4];
            let out = match transform(&*f, entry, &input) {
                Ok(o) => o,
                Err(p) => return Outcome::bad(format!("transform returned for request #{} (n={}, {:?}) panicked on a well-shaped call via {:?}: {} @ {}", i, n, r.dir, entry, p.msg, p.loc)),
            };
            let mut c2 = case.clone();
            c2.n = n;
            c2.dir = r.dir;
            c2.chunks = 1;
            c2.input = spec.clone();
            let reference = reference_for::<T>(&c2, &input);
            let e = refdft::rel_l2(&to_pairs(&out), &reference);
            if !(e <= 4.0 * b) {
                return Outcome::bad(format!("transform returned for request #{} (n={}, {:?}) is not the DFT: relL2 {:.3e} > 4*B = {:.3e} via {:?}; earlier (dropped) requests {:?}", i, n, r.dir, e, 4.0 * b, entry, earlier()));
            }
            worst = worst.max(e / b);
        }
        drop(f);
    }
    Outcome::held(reqs.len() >= 2)
        .ratio(format!("planlife relL2/B {:?} {}", case.planner, T::NAME), worst)
        .count("requests judged (caller drops each transform at once)", reqs.len() as u64)
        .label(format!("planlife length:{}", reqs.len()))
}

/// Put the calling thread's SSE control/status register back to the process start-up default (round to nearest,
/// all exceptions masked, no flush-to-zero / denormals-are-zero). New threads inherit the creating thread's
/// floating-point environment on Linux, so without this a "fresh" thread is only as fresh as its parent.
fn pristine_fp_env() {
    #[cfg(target_arch = "x86_64")]
    unsafe {
        let v: u32 = 0x1F80;
        std::arch::asm!("ldmxcsr [{}]", in(reg) &v, options(nostack, readonly));
    }
}

// ---------------------------------------------------------------------------------------------
// kind "threads" (C11): p[0] = threads, p[1] = rounds

pub fn k_threads<T: Real>(case: &Case) -> Outcome {
    let fft = match obtain::<T>(case) {
        Ok(f) => f,
        Err(o) => return o,
    };
    let n = case.n;
    if n == 0 {
        return Outcome::skip("n=0");
    }
    let threads = (case.pget(0) as usize).clamp(2, 32);
    let rounds = (case.pget(1) as usize).max(1);
    // work list: (input, entry, chunks); magnitudes from ordinary down to the bottom of the normal range and below
    let tiny = if T::MAX_EXP < 200 { 1.0e-37 } else { 1.0e-306 };
    let mut items: Vec<(Vec<Complex<T>>, Entry, usize)> = vec![];
    for (i, fam) in ["uniform", "gaussish", "spikes", "uniform", "tone_off", "uniform"].iter().enumerate() {
        let k = 1 + i % 3;
        let mut v = make_input::<T>(&InputSpec::fam(fam, mix(case.input.seed, i as u64)), n, k);
        if i == 3 || i == 5 {
            // near-underflow data: results depend on the floating-point environment (FTZ/DAZ) if anything changes it
            let s = if i == 3 { tiny } else { tiny * 1.0e-3 };
            for c in v.iter_mut() {
                *c = Complex { re: T::of_f64(c.re.to_f64() * s), im: T::of_f64(c.im.to_f64() * s) };
            }
        }
        items.push((v, ENTRIES[(i + case.input.seed as usize) % 4], k));
    }
    // isolated reference: one fresh thread per item, a single call each
    let mut reference: Vec<Vec<Complex<T>>> = vec![];
    for (v, e, _) in &items {
        let f = Arc::clone(&fft);
        let v2 = v.clone();
        let e2 = *e;
        let r = std::thread::spawn(move || {
            pristine_fp_env();
            transform(&*f, e2, &v2)
        })
        .join();
        match r {
            Ok(Ok(o)) => reference.push(o),
            Ok(Err(p)) => return Outcome::bad(format!("well-shaped call panicked: {} @ {}", p.msg, p.loc)),
            Err(_) => return Outcome::bad("isolated call crashed its thread"),
        }
    }
    // cold start: an instance NO call has touched yet receives its first calls from all threads at once (lazy initialisation
    // on first use is where a shared instance is most fragile). Expected bits come from a twin instance built by a second
    // planner from the same requests (C10: such twins produce bit-identical outputs) and from the warm instance above.
    let mut cold_calls = 0u64;
    for trial in 0..3usize {
        let cold = match obtain_uncached::<T>(case) {
            Ok(f) => f,
            Err(o) => return o,
        };
        let barrier = Arc::new(Barrier::new(threads));
        let failure: Arc<std::sync::Mutex<Option<String>>> = Arc::new(std::sync::Mutex::new(None));
        std::thread::scope(|s| {
            for t in 0..threads {
                let cold = Arc::clone(&cold);
                let barrier = Arc::clone(&barrier);
                let failure = Arc::clone(&failure);
                let items = &items;
                let reference = &reference;
                s.spawn(move || {
                    pristine_fp_env();
                    let i = (t + trial) % items.len();
                    let (v, e, _) = &items[i];
                    let mut data = v.clone();
                    let mut out = if result_in_out(*e) { vec![Complex { re: T::of_f64(0.0), im: T::of_f64(0.0) }; v.len()] } else { vec![] };
                    let mut scratch = vec![Complex { re: T::of_f64(0.0), im: T::of_f64(0.0) }; adv_scratch(&*cold, *e)];
                    barrier.wait();
                    let r = catch(|| raw_call(&*cold, *e, &mut data, &mut out, &mut scratch));
                    if let Err(p) = r {
                        *failure.lock().unwrap() = Some(format!("first concurrent call on a fresh instance panicked: {} @ {}", p.msg, p.loc));
                        return;
                    }
                    let res: &[Complex<T>] = if result_in_out(*e) { &out } else { &data };
                    if !bits_eq(res, &reference[i]) {
                        let j = res.iter().zip(reference[i].iter()).position(|(a, b)| a.re.bits() != b.re.bits() || a.im.bits() != b.im.bits()).unwrap_or(0);
                        *failure.lock().unwrap() = Some(format!(
                            "first call on a fresh instance, made concurrently by {} threads (thread {}, item {}, {:?}, trial {}), returned ({},{}) at element {} where an isolated call on an identically planned instance returns ({},{})",
                            threads, t, i, e, trial, res[j].re, res[j].im, j, reference[i][j].re, reference[i][j].im
                        ));
                    }
                });
            }
        });
        if let Some(f) = failure.lock().unwrap().take() {
            return Outcome::bad(f);
        }
        cold_calls += threads as u64;
    }
    // call-history determinism on one thread: interleave all items twice; before the second round every entry point is
    // called once with an ill-shaped buffer (the documented panic is caught; once here, once on a thread that then ends) --
    // a failed call must not change what later valid calls on the instance return
    pristine_fp_env();
    for round in 0..3 {
        if round >= 1 && n >= 2 {
            let bad_len = n + 1;
            let zero = Complex { re: T::of_f64(0.0), im: T::of_f64(0.0) };
            for e in ENTRIES {
                let f = Arc::clone(&fft);
                let call = move || {
                    let mut d = vec![zero; bad_len];
                    let mut o = if result_in_out(e) { vec![zero; bad_len] } else { vec![] };
                    let mut sc = vec![zero; adv_scratch(&*f, e)];
                    let _ = catch(|| raw_call(&*f, e, &mut d, &mut o, &mut sc));
                };
                if round == 1 {
                    call();
                } else {
                    let _ = std::thread::spawn(call).join();
                }
            }
        }
        for (i, (v, e, _)) in items.iter().enumerate() {
            match transform(&*fft, *e, v) {
                Ok(o) => {
                    if !bits_eq(&o, &reference[i]) {
                        return Outcome::bad(format!("call #{} (round {}) on one thread returned different bits than an isolated call on a fresh thread (item {}, {:?})", i, round, i, e));
                    }
                }
                Err(p) => {
                    return Outcome::bad(format!(
                        "well-shaped call panicked{}: {} @ {}",
                        if round >= 1 { " after an earlier ill-shaped call on the same instance had ended in its documented panic" } else { "" },
                        p.msg,
                        p.loc
                    ))
                }
            }
        }
    }
    // concurrent phase: every thread owns one slice of ONE shared allocation per item (buffers of different threads are adjacent)
    let maxlen = items.iter().map(|it| it.0.len()).max().unwrap();
    let zero = Complex { re: T::of_f64(0.0), im: T::of_f64(0.0) };
    let mut data_all = vec![zero; maxlen * threads];
    let mut out_all = vec![zero; maxlen * threads];
    let barrier = Arc::new(Barrier::new(threads));
    let items = Arc::new(items);
    let reference = Arc::new(reference);
    let overlapped = Arc::new(std::sync::atomic::AtomicU64::new(0));
    let failure: Arc<std::sync::Mutex<Option<String>>> = Arc::new(std::sync::Mutex::new(None));
    std::thread::scope(|s| {
        for (t, (dslice, oslice)) in data_all.chunks_mut(maxlen).zip(out_all.chunks_mut(maxlen)).enumerate() {
            let fft = Arc::clone(&fft);
            let items = Arc::clone(&items);
            let reference = Arc::clone(&reference);
            let barrier = Arc::clone(&barrier);
            let failure = Arc::clone(&failure);
            let overlapped = Arc::clone(&overlapped);
            let seed = mix(case.input.seed, t as u64);
            s.spawn(move || {
                let mut st = crate::gen::Stream(seed);
                let mut scratch: Vec<Complex<T>> = vec![];
                pristine_fp_env();
                barrier.wait();
                overlapped.fetch_add(1, std::sync::atomic::Ordering::Relaxed);
                for round in 0..rounds {
                    if failure.lock().unwrap().is_some() {
                        return;
                    }
                    let i = st.below(items.len() as u64) as usize;
                    let (v, e, _) = &items[i];
                    let len = v.len();
                    // place the buffer at the start or the end of this thread's slice so that neighbours touch
                    let off = if st.below(2) == 0 { 0 } else { maxlen - len };
                    let d = &mut dslice[off..off + len];
                    let o = &mut oslice[off..off + len];
                    d.copy_from_slice(v);
                    let need = adv_scratch(&*fft, *e);
                    if scratch.len() != need {
                        scratch = vec![Complex { re: T::of_f64(0.0), im: T::of_f64(0.0) }; need];
                    }
                    for _ in 0..st.below(4) {
                        std::thread::yield_now();
                    }
                    let r = catch(|| raw_call(&*fft, *e, d, if result_in_out(*e) { o } else { &mut [] }, &mut scratch));
                    if let Err(p) = r {
                        *failure.lock().unwrap() = Some(format!("well-shaped concurrent call panicked: {} @ {}", p.msg, p.loc));
                        return;
                    }
                    let res: &[Complex<T>] = if result_in_out(*e) { o } else { d };
                    if !bits_eq(res, &reference[i]) {
                        let j = res.iter().zip(reference[i].iter()).position(|(a, b)| a.re.bits() != b.re.bits() || a.im.bits() != b.im.bits()).unwrap_or(0);
                        *failure.lock().unwrap() = Some(format!(
                            "concurrent call (thread {}, round {}, item {}, {:?}) returned ({},{}) at element {} where an isolated call returns ({},{})",
                            t, round, i, e, res[j].re, res[j].im, j, reference[i][j].re, reference[i][j].im
                        ));
                        return;
                    }
                }
            });
        }
    });
    if let Some(f) = failure.lock().unwrap().take() {
        return Outcome::bad(f);
    }
    Outcome::held(overlapped.load(std::sync::atomic::Ordering::Relaxed) >= 2)
        .count("concurrent calls compared bitwise", (threads * rounds) as u64)
        .count("cold-start first calls compared bitwise", cold_calls)
        .label(format!("len:{}", crate::gen::classify_len(n)))
        .label(format!("threads:{}", threads))
}

// compile-time obligations of C11: planners, transform handles and every public algorithm type are Send + Sync
#[allow(dead_code)]
fn assert_send_sync<X: Send + Sync>() {}
#[allow(dead_code)]
fn auto_trait_obligations<T: rustfft::FftNum>() {
    use rustfft::algorithm::butterflies::*;
    use rustfft::algorithm::*;
    assert_send_sync::<rustfft::FftPlanner<T>>();
    assert_send_sync::<rustfft::FftPlannerScalar<T>>();
    assert_send_sync::<rustfft::FftPlannerSse<T>>();
    assert_send_sync::<rustfft::FftPlannerAvx<T>>();
    assert_send_sync::<Arc<dyn Fft<T>>>();
    assert_send_sync::<Dft<T>>();
    assert_send_sync::<Radix4<T>>();
    assert_send_sync::<Radix3<T>>();
    assert_send_sync::<MixedRadix<T>>();
    assert_send_sync::<MixedRadixSmall<T>>();
    assert_send_sync::<GoodThomasAlgorithm<T>>();
    assert_send_sync::<GoodThomasAlgorithmSmall<T>>();
    assert_send_sync::<RadersAlgorithm<T>>();
    assert_send_sync::<BluesteinsAlgorithm<T>>();
    assert_send_sync::<Butterfly1<T>>();
    assert_send_sync::<Butterfly2<T>>();
    assert_send_sync::<Butterfly3<T>>();
    assert_send_sync::<Butterfly4<T>>();
    assert_send_sync::<Butterfly5<T>>();
    assert_send_sync::<Butterfly6<T>>();
    assert_send_sync::<Butterfly7<T>>();
    assert_send_sync::<Butterfly8<T>>();
    assert_send_sync::<Butterfly9<T>>();
    assert_send_sync::<Butterfly11<T>>();
    assert_send_sync::<Butterfly12<T>>();
    assert_send_sync::<Butterfly13<T>>();
    assert_send_sync::<Butterfly16<T>>();
    assert_send_sync::<Butterfly17<T>>();
    assert_send_sync::<Butterfly19<T>>();
    assert_send_sync::<Butterfly23<T>>();
    assert_send_sync::<Butterfly24<T>>();
    assert_send_sync::<Butterfly27<T>>();
    assert_send_sync::<Butterfly29<T>>();
    assert_send_sync::<Butterfly31<T>>();
    assert_send_sync::<Butterfly32<T>>();
}

// ---------------------------------------------------------------------------------------------
// kind "config" (C13): which planner the automatic planner chose, and which dedicated planners construct

pub fn k_config<T: Real>(case: &Case) -> Outcome {
    use rustfft::verif_hooks::{MASK_AVX, MASK_FMA, MASK_SSE41};
    let mask = crate::runner::current_mask();
    let feat_avx = cfg!(feature = "avx");
    let feat_sse = cfg!(feature = "sse");
    let real = |f: &str| -> bool {
        match f {
            "avx" => std::is_x86_feature_detected!("avx"),
            "fma" => std::is_x86_feature_detected!("fma"),
            "sse4.1" => std::is_x86_feature_detected!("sse4.1"),
            _ => false,
        }
    };
    let avx_ok = feat_avx && real("avx") && real("fma") && mask & (MASK_AVX | MASK_FMA) == 0;
    let sse_ok = feat_sse && real("sse4.1") && mask & MASK_SSE41 == 0;
    let expected = if avx_ok {
        "avx"
    } else if sse_ok {
        "sse"
    } else {
        "scalar"
    };
    let avx_new = match catch(|| FftPlannerAvx::<T>::new().is_ok()) {
        Ok(b) => b,
        Err(p) => return Outcome::bad(format!("FftPlannerAvx::new() panicked: {} @ {}", p.msg, p.loc)),
    };
    let sse_new = match catch(|| FftPlannerSse::<T>::new().is_ok()) {
        Ok(b) => b,
        Err(p) => return Outcome::bad(format!("FftPlannerSse::new() panicked: {} @ {}", p.msg, p.loc)),
    };
    let cfgtxt = format!("features avx={} sse={}, visible CPU: avx+fma={} sse4.1={} (mask {})", feat_avx, feat_sse, mask & (MASK_AVX | MASK_FMA) == 0, mask & MASK_SSE41 == 0, mask);
    if avx_new != avx_ok {
        return Outcome::bad(format!("FftPlannerAvx::new() returned {} but AVX+FMA is {} in this configuration ({})", if avx_new { "Ok" } else { "Err" }, if avx_ok { "available" } else { "unavailable or compiled out" }, cfgtxt));
    }
    if sse_new != sse_ok {
        return Outcome::bad(format!("FftPlannerSse::new() returned {} but SSE4.1 is {} in this configuration ({})", if sse_new { "Ok" } else { "Err" }, if sse_ok { "available" } else { "unavailable or compiled out" }, cfgtxt));
    }
    let auto = match catch(|| AnyPlanner::<T>::new(Planner::Auto)) {
        Ok(Some(p)) => p,
        Ok(None) => return Outcome::bad("FftPlanner::new() failed"),
        Err(p) => return Outcome::bad(format!("FftPlanner::new() panicked: {} @ {} ({})", p.msg, p.loc, cfgtxt)),
    };
    if auto.chosen() != expected {
        return Outcome::bad(format!("FftPlanner::new() chose the {} planner where the fallback chain AVX -> SSE4.1 -> scalar prescribes {} ({})", auto.chosen(), expected, cfgtxt));
    }
    Outcome::held(true).label(format!("config:{} mask{} -> {}", crate::runner::compiled_variant(), mask, expected))
}
