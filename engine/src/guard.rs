//! Guard-page allocator: a slice placed flush against a PROT_NONE page, so that a one-element
//! over-read or over-write in an optimised build is a SIGSEGV in the worker process.
use std::ffi::c_void;

extern "C" {
    fn mmap(addr: *mut c_void, len: usize, prot: i32, flags: i32, fd: i32, off: i64) -> *mut c_void;
    fn munmap(addr: *mut c_void, len: usize) -> i32;
    fn mprotect(addr: *mut c_void, len: usize, prot: i32) -> i32;
}
const PROT_NONE: i32 = 0;
const PROT_READ: i32 = 1;
const PROT_WRITE: i32 = 2;
const MAP_PRIVATE: i32 = 2;
const MAP_ANONYMOUS: i32 = 0x20;
const PAGE: usize = 4096;

#[derive(Copy, Clone, Debug, PartialEq, Eq)]
pub enum Flush {
    /// slice ends exactly where the upper guard page begins (catches overruns past the end)
    High,
    /// slice begins exactly where the lower guard page ends (catches underruns before the start)
    Low,
    /// slice begins `align_of::<T>()` bytes after the lower guard page: for `Complex<f32>` / `Complex<f64>` that is HALF an
    /// element, i.e. the least alignment a safe caller can legally hand over (a `&[Complex<f32>]` only has to be 4-byte
    /// aligned). An aligned SIMD load/store (`_mm_load_ps`, `_mm256_store_pd` ...) faults on such a slice.
    LowOff,
    /// slice ends `align_of::<T>()` bytes before the upper guard page (same purpose, other end)
    HighOff,
}
impl Flush {
    pub fn from_code(c: i64) -> Flush {
        match c {
            1 => Flush::Low,
            2 => Flush::LowOff,
            3 => Flush::HighOff,
            _ => Flush::High,
        }
    }
    pub fn name(self) -> &'static str {
        match self {
            Flush::High => "high",
            Flush::Low => "low",
            Flush::LowOff => "low+misaligned",
            Flush::HighOff => "high-misaligned",
        }
    }
}

thread_local! {
    // recycled mappings (base, map_len, body_len): avoids 5 syscalls per buffer in the hot loops
    static POOL: std::cell::RefCell<Vec<(usize, usize, usize)>> = std::cell::RefCell::new(Vec::new());
}

pub struct Guarded<T: Copy> {
    base: *mut u8,
    map_len: usize,
    ptr: *mut T,
    len: usize,
    body: *mut u8,
    body_len: usize,
}

impl<T: Copy> Guarded<T> {
    /// zero-initialised mapping (all element types used here are plain-old-data for which the
    /// all-zero bit pattern is a valid value)
    pub fn zeroed(len: usize, flush: Flush) -> Guarded<T> {
        let bytes = len * std::mem::size_of::<T>();
        let off = match flush {
            Flush::LowOff | Flush::HighOff => std::mem::align_of::<T>(),
            _ => 0,
        };
        let body_pages = (bytes + off + PAGE - 1) / PAGE;
        let body_len = body_pages.max(1) * PAGE;
        let map_len = body_len + 2 * PAGE;
        unsafe {
            let recycled = POOL.with(|p| {
                let mut p = p.borrow_mut();
                p.iter().position(|e| e.2 == body_len).map(|i| p.swap_remove(i))
            });
            let base = match recycled {
                Some((b, _, _)) => b as *mut u8,
                None => {
                    let base = mmap(std::ptr::null_mut(), map_len, PROT_READ | PROT_WRITE, MAP_PRIVATE | MAP_ANONYMOUS, -1, 0);
                    assert!(base as isize != -1, "mmap failed");
                    let base = base as *mut u8;
                    assert_eq!(mprotect(base as *mut c_void, PAGE, PROT_NONE), 0);
                    assert_eq!(mprotect(base.add(PAGE + body_len) as *mut c_void, PAGE, PROT_NONE), 0);
                    base
                }
            };
            let body = base.add(PAGE);
            if recycled.is_some() {
                // same guarantee as a fresh mapping: the slice starts out zeroed
                std::ptr::write_bytes(body, 0, body_len);
            }
            let start = match flush {
                Flush::High => body.add(body_len - bytes),
                Flush::Low => body,
                Flush::LowOff => body.add(off),
                Flush::HighOff => body.add(body_len - bytes - off),
            };
            assert_eq!(start as usize % std::mem::align_of::<T>(), 0);
            Guarded { base, map_len, ptr: start as *mut T, len, body, body_len }
        }
    }
    pub fn new(len: usize, flush: Flush, fill: T) -> Guarded<T> {
        let mut g = Guarded::zeroed(len, flush);
        for e in g.as_mut_slice() {
            *e = fill;
        }
        g
    }
    pub fn from_slice(src: &[T], flush: Flush) -> Guarded<T> {
        let mut g = Guarded::zeroed(src.len(), flush);
        g.as_mut_slice().copy_from_slice(src);
        g
    }
    pub fn as_slice(&self) -> &[T] {
        unsafe { std::slice::from_raw_parts(self.ptr, self.len) }
    }
    pub fn as_mut_slice(&mut self) -> &mut [T] {
        unsafe { std::slice::from_raw_parts_mut(self.ptr, self.len) }
    }
    /// make the whole body read-only (writes fault) / writable again
    pub fn set_readonly(&mut self, ro: bool) {
        unsafe {
            let prot = if ro { PROT_READ } else { PROT_READ | PROT_WRITE };
            assert_eq!(mprotect(self.body as *mut c_void, self.body_len, prot), 0);
        }
    }
}
impl<T: Copy> Drop for Guarded<T> {
    fn drop(&mut self) {
        if self.map_len > 0 {
            let keep = self.body_len <= 64 * PAGE
                && POOL.with(|p| {
                    let mut p = p.borrow_mut();
                    if p.len() < 48 {
                        p.push((self.base as usize, self.map_len, self.body_len));
                        true
                    } else {
                        false
                    }
                });
            if !keep {
                unsafe {
                    munmap(self.base as *mut c_void, self.map_len);
                }
            }
        }
    }
}

extern "C" {
    fn open(path: *const std::ffi::c_char, flags: i32, mode: u32) -> i32;
    fn ftruncate(fd: i32, len: i64) -> i32;
    fn close(fd: i32) -> i32;
}
/// Map `len` bytes of a (created/truncated) file MAP_SHARED; null on failure.
pub fn shared_file_map(path: &std::path::Path, len: usize) -> *mut u8 {
    const O_RDWR: i32 = 2;
    const O_CREAT: i32 = 0o100;
    const O_TRUNC: i32 = 0o1000;
    const MAP_SHARED: i32 = 1;
    let c = match std::ffi::CString::new(path.to_string_lossy().as_bytes()) {
        Ok(c) => c,
        Err(_) => return std::ptr::null_mut(),
    };
    unsafe {
        let fd = open(c.as_ptr(), O_RDWR | O_CREAT | O_TRUNC, 0o644);
        if fd < 0 {
            return std::ptr::null_mut();
        }
        if ftruncate(fd, len as i64) != 0 {
            close(fd);
            return std::ptr::null_mut();
        }
        let p = mmap(std::ptr::null_mut(), len, PROT_READ | PROT_WRITE, MAP_SHARED, fd, 0);
        close(fd);
        if p as isize == -1 {
            std::ptr::null_mut()
        } else {
            p as *mut u8
        }
    }
}
