//! Byte-level decoder for the coverage-guided fuzz targets: bytes -> structured `Case`.
//! Every byte string decodes to a well-formed case (or None when too short), so the fuzzer reaches the
//! transform logic instead of dying in input validation; the semantic oracle is `props::run_case`.
use crate::types::*;

struct Cur<'a> {
    d: &'a [u8],
    i: usize,
}
impl<'a> Cur<'a> {
    fn u8(&mut self) -> u8 {
        let v = self.d.get(self.i).copied().unwrap_or(0);
        self.i += 1;
        v
    }
    fn u16(&mut self) -> u16 {
        self.u8() as u16 | (self.u8() as u16) << 8
    }
    fn u32(&mut self) -> u32 {
        self.u16() as u32 | (self.u16() as u32) << 16
    }
}

const STRUCTURED: [usize; 64] = [
    37, 41, 59, 61, 83, 97, 107, 127, 149, 167, 251, 257, 263, 509, 521, 1021, 1031, 1201, 2039, 2053, 49, 121, 125, 169, 243, 289, 343, 625, 729, 961,
    1024, 2048, 1536, 768, 384, 192, 96, 48, 100, 200, 360, 720, 1000, 1440, 2000, 1260, 74, 82, 118, 166, 148, 222, 35, 63, 77, 91, 99, 135, 143, 175, 187, 561, 1155, 1729,
];
const KINDS: [&str; 9] = ["numeric", "guard", "chunks", "scratch", "shape", "immut", "roundtrip", "history", "exact"];

fn length(c: &mut Cur, cap: usize) -> usize {
    let v = c.u16();
    let n = if v & 0x8000 != 0 { STRUCTURED[(v & 63) as usize] } else { (v as usize) % 1025 };
    n.min(cap)
}

fn tree(c: &mut Cur, depth: usize) -> Tree {
    let tag = c.u8();
    let leaf = |c: &mut Cur| {
        let n = 1 + (c.u8() as usize) % 32;
        match c.u8() % 3 {
            0 if crate::trees::BUTTERFLY_LENS.contains(&n) => Tree::Butterfly(n),
            1 => Tree::Planned(PLANNERS[(c.u8() % 4) as usize], 1 + (c.u8() as usize) % 64),
            _ => Tree::Dft(n),
        }
    };
    if depth == 0 {
        return leaf(c);
    }
    match tag % 12 {
        0 | 1 => leaf(c),
        2 => Tree::Radix4(1 << (c.u8() % 9)),
        3 => Tree::Radix3(3usize.pow((c.u8() % 6) as u32)),
        4 => Tree::Radix4Base((c.u8() % 3) as u32, Box::new(tree(c, depth - 1))),
        5 => Tree::Radix3Base((c.u8() % 3) as u32, Box::new(tree(c, depth - 1))),
        6 => Tree::MixedRadix(Box::new(tree(c, depth - 1)), Box::new(tree(c, depth - 1))),
        7 => Tree::MixedRadixSmall(Box::new(tree(c, depth - 1)), Box::new(tree(c, depth - 1))),
        8 => Tree::GoodThomas(Box::new(tree(c, depth - 1)), Box::new(tree(c, depth - 1))),
        9 => Tree::GoodThomasSmall(Box::new(tree(c, depth - 1)), Box::new(tree(c, depth - 1))),
        10 => Tree::Raders(Box::new(tree(c, depth - 1))),
        _ => {
            let inner = tree(c, depth - 1);
            let il = crate::trees::tree_len(&inner);
            let top = (il + 1) / 2;
            let n = if top == 0 { 1 } else { 1 + (c.u8() as usize) % top };
            Tree::Bluesteins(n, Box::new(inner))
        }
    }
}

/// `which`: 0 = any kind over planned transforms, 1 = constructor trees, 2 = planning histories
pub fn decode(data: &[u8], which: u8) -> Option<Case> {
    if data.len() < 8 {
        return None;
    }
    let mut c = Cur { d: data, i: 0 };
    let mut kind = KINDS[(c.u8() as usize) % KINDS.len()];
    let b = c.u8();
    let planner = PLANNERS[(b & 3) as usize];
    let ty = TYS[((b >> 2) & 1) as usize];
    let dir = DIRS[((b >> 3) & 1) as usize];
    let entry = ENTRIES[((b >> 4) & 3) as usize];
    let mut n = length(&mut c, 2048);
    let mut chunks = 1 + (c.u8() as usize) % 8;
    let fam = crate::gen::INPUT_FAMILIES[(c.u8() as usize) % crate::gen::INPUT_FAMILIES.len()];
    let seed = c.u32() as u64;
    let mut source = Source::Plan;
    match which {
        1 => {
            let depth = 1 + (c.u8() as usize) % 3;
            let t = tree(&mut c, depth);
            n = crate::trees::tree_len(&t);
            if n > 6000 {
                return None;
            }
            source = Source::Tree(t);
            if kind == "history" || kind == "roundtrip" {
                kind = "numeric";
            }
        }
        2 => {
            let count = 1 + (c.u8() as usize) % 6;
            let reqs: Vec<Req> = (0..count).map(|_| Req { n: length(&mut c, 2048).max(1), dir: DIRS[(c.u8() & 1) as usize] }).collect();
            n = reqs.last().unwrap().n;
            let pick = reqs.len();
            source = Source::History { reqs, pick };
            kind = "history";
        }
        _ => {
            if kind == "history" {
                kind = "numeric";
            }
        }
    }
    if n * chunks > 16384 {
        chunks = 1;
    }
    let mut case = Case::new("FUZZ", kind, planner, ty, dir, n).with_entry(entry).with_chunks(chunks).with_input(InputSpec::fam(fam, seed)).with_source(source);
    let p: Vec<i64> = match kind {
        "guard" => vec![(c.u8() & 1) as i64, 0],
        "chunks" => vec![(c.u8() % 8) as i64, 1 + (c.u8() % 5) as i64],
        "scratch" => {
            if case.entry == Entry::Process {
                case.entry = Entry::Inplace;
            }
            vec![[0i64, 1, 17, -1][(c.u8() % 4) as usize], (c.u8() % 6) as i64, (c.u8() % 6) as i64]
        }
        "shape" | "immut" => {
            if kind == "immut" {
                case.entry = Entry::Immutable;
            }
            let nn = n.max(1);
            let d = (c.u16() as usize) % (8 * nn + 2);
            let d = if c.u8() & 1 == 0 { (d / nn).max(1) * nn } else { d }; // half of the cases are whole multiples
            let o = match c.u8() % 6 {
                0 => d + 1,
                1 => d.saturating_sub(1),
                2 => d + nn,
                3 => d.saturating_sub(nn),
                _ => d,
            };
            vec![d.min(20000) as i64, o.min(20000) as i64, (c.u8() % 4) as i64, (c.u8() & 1) as i64, (c.u8() % 5) as i64]
        }
        "roundtrip" => vec![(c.u8() % 3) as i64, (c.u8() % 4) as i64],
        "exact" => {
            case.input = InputSpec::fam("random-field", seed);
            if n > 1024 {
                return None;
            }
            vec![0]
        }
        _ => vec![],
    };
    case.p = p;
    Some(case)
}
