//! Foreign element types satisfying the public `FftNum` bound (C05, C14):
//!  `Cnt`   f64 payload + thread-local operation counters
//!  `Wide`  f64 payload + a tag word every operation propagates (size 16: differs from f32/f64)
//!  `NewF32` repr(transparent) over f32 (same layout, different TypeId)
//!  `DDn`   double-double arithmetic (higher precision than f64)
use crate::dd::DD;
use rustfft::num_traits::{FromPrimitive, Num, One, Signed, ToPrimitive, Zero};
use std::cell::Cell;
use std::ops::{Add, Div, Mul, Neg, Rem, Sub};

thread_local! {
    pub static OPS: Cell<[u64; 6]> = Cell::new([0; 6]); // add sub mul neg div other
}
pub fn ops_reset() {
    OPS.with(|c| c.set([0; 6]));
}
pub fn ops_get() -> [u64; 6] {
    OPS.with(|c| c.get())
}
#[inline]
fn bump(i: usize) {
    OPS.with(|c| {
        let mut v = c.get();
        v[i] += 1;
        c.set(v);
    });
}

macro_rules! num_boilerplate {
    ($t:ident, $from_f64:expr, $to_f64:expr) => {
        impl Zero for $t {
            fn zero() -> Self {
                $from_f64(0.0)
            }
            fn is_zero(&self) -> bool {
                $to_f64(*self) == 0.0
            }
        }
        impl One for $t {
            fn one() -> Self {
                $from_f64(1.0)
            }
        }
        impl Num for $t {
            type FromStrRadixErr = ();
            fn from_str_radix(_: &str, _: u32) -> Result<Self, ()> {
                Err(())
            }
        }
        impl Rem for $t {
            type Output = $t;
            fn rem(self, o: $t) -> $t {
                bump(5);
                $from_f64($to_f64(self) % $to_f64(o))
            }
        }
        impl Signed for $t {
            fn abs(&self) -> Self {
                bump(5);
                if $to_f64(*self) < 0.0 {
                    -*self
                } else {
                    *self
                }
            }
            fn abs_sub(&self, o: &Self) -> Self {
                bump(5);
                if $to_f64(*self) <= $to_f64(*o) {
                    Self::zero()
                } else {
                    *self - *o
                }
            }
            fn signum(&self) -> Self {
                bump(5);
                $from_f64($to_f64(*self).signum())
            }
            fn is_positive(&self) -> bool {
                bump(5);
                $to_f64(*self) > 0.0
            }
            fn is_negative(&self) -> bool {
                bump(5);
                $to_f64(*self) < 0.0
            }
        }
        impl FromPrimitive for $t {
            fn from_i64(n: i64) -> Option<Self> {
                Some($from_f64(n as f64))
            }
            fn from_u64(n: u64) -> Option<Self> {
                Some($from_f64(n as f64))
            }
            fn from_f64(x: f64) -> Option<Self> {
                Some($from_f64(x))
            }
            fn from_f32(x: f32) -> Option<Self> {
                Some($from_f64(x as f64))
            }
        }
        impl ToPrimitive for $t {
            fn to_i64(&self) -> Option<i64> {
                bump(5);
                Some($to_f64(*self) as i64)
            }
            fn to_u64(&self) -> Option<u64> {
                bump(5);
                Some($to_f64(*self) as u64)
            }
            fn to_f64(&self) -> Option<f64> {
                Some($to_f64(*self))
            }
        }
    };
}

// ---------------------------------------------------------------------------------------------
#[derive(Copy, Clone, Debug, PartialEq)]
pub struct Cnt(pub f64);
impl Add for Cnt {
    type Output = Cnt;
    #[inline]
    fn add(self, o: Cnt) -> Cnt {
        bump(0);
        Cnt(self.0 + o.0)
    }
}
impl Sub for Cnt {
    type Output = Cnt;
    #[inline]
    fn sub(self, o: Cnt) -> Cnt {
        bump(1);
        Cnt(self.0 - o.0)
    }
}
impl Mul for Cnt {
    type Output = Cnt;
    #[inline]
    fn mul(self, o: Cnt) -> Cnt {
        bump(2);
        Cnt(self.0 * o.0)
    }
}
impl Neg for Cnt {
    type Output = Cnt;
    #[inline]
    fn neg(self) -> Cnt {
        bump(3);
        Cnt(-self.0)
    }
}
impl Div for Cnt {
    type Output = Cnt;
    fn div(self, o: Cnt) -> Cnt {
        bump(4);
        Cnt(self.0 / o.0)
    }
}
num_boilerplate!(Cnt, Cnt, |c: Cnt| c.0);

/// The same operation-counting element with 248 bytes of padding (size 256, so `Complex<CntBig>` is 512 bytes): the public
/// numeric bound says nothing about an element's size, and a planner that sizes its decisions by `size_of::<Complex<T>>()`
/// (cache budgets, blocking factors) takes different branches for such a type.
#[derive(Copy, Clone, Debug, PartialEq)]
pub struct CntBig {
    pub v: f64,
    pub pad: [u64; 31],
}
pub fn cnt_big(v: f64) -> CntBig {
    CntBig { v, pad: [0x5A5A_5A5A_5A5A_5A5A; 31] }
}
impl Add for CntBig {
    type Output = CntBig;
    #[inline]
    fn add(self, o: CntBig) -> CntBig {
        bump(0);
        cnt_big(self.v + o.v)
    }
}
impl Sub for CntBig {
    type Output = CntBig;
    #[inline]
    fn sub(self, o: CntBig) -> CntBig {
        bump(1);
        cnt_big(self.v - o.v)
    }
}
impl Mul for CntBig {
    type Output = CntBig;
    #[inline]
    fn mul(self, o: CntBig) -> CntBig {
        bump(2);
        cnt_big(self.v * o.v)
    }
}
impl Neg for CntBig {
    type Output = CntBig;
    #[inline]
    fn neg(self) -> CntBig {
        bump(3);
        cnt_big(-self.v)
    }
}
impl Div for CntBig {
    type Output = CntBig;
    fn div(self, o: CntBig) -> CntBig {
        bump(4);
        cnt_big(self.v / o.v)
    }
}
num_boilerplate!(CntBig, cnt_big, |c: CntBig| c.v);

/// counting element types behind one constructor
pub trait Counting: rustfft::FftNum {
    const NAME: &'static str;
    fn mk(v: f64) -> Self;
}
impl Counting for Cnt {
    const NAME: &'static str = "8-byte counting element";
    fn mk(v: f64) -> Self {
        Cnt(v)
    }
}
impl Counting for CntBig {
    const NAME: &'static str = "256-byte counting element";
    fn mk(v: f64) -> Self {
        cnt_big(v)
    }
}

// ---------------------------------------------------------------------------------------------
pub const TAG: u64 = 0xA5A5_5A5A_C3C3_3C3C;
#[derive(Copy, Clone, Debug, PartialEq)]
pub struct Wide {
    pub v: f64,
    pub tag: u64,
}
fn wide(v: f64) -> Wide {
    Wide { v, tag: TAG }
}
impl Add for Wide {
    type Output = Wide;
    #[inline]
    fn add(self, o: Wide) -> Wide {
        Wide { v: self.v + o.v, tag: if self.tag == TAG && o.tag == TAG { TAG } else { 0 } }
    }
}
impl Sub for Wide {
    type Output = Wide;
    #[inline]
    fn sub(self, o: Wide) -> Wide {
        Wide { v: self.v - o.v, tag: if self.tag == TAG && o.tag == TAG { TAG } else { 0 } }
    }
}
impl Mul for Wide {
    type Output = Wide;
    #[inline]
    fn mul(self, o: Wide) -> Wide {
        Wide { v: self.v * o.v, tag: if self.tag == TAG && o.tag == TAG { TAG } else { 0 } }
    }
}
impl Neg for Wide {
    type Output = Wide;
    #[inline]
    fn neg(self) -> Wide {
        Wide { v: -self.v, tag: self.tag }
    }
}
impl Div for Wide {
    type Output = Wide;
    fn div(self, o: Wide) -> Wide {
        Wide { v: self.v / o.v, tag: if self.tag == TAG && o.tag == TAG { TAG } else { 0 } }
    }
}
num_boilerplate!(Wide, wide, |c: Wide| c.v);

// ---------------------------------------------------------------------------------------------
#[derive(Copy, Clone, Debug, PartialEq)]
#[repr(transparent)]
pub struct NewF32(pub f32);
impl Add for NewF32 {
    type Output = NewF32;
    #[inline]
    fn add(self, o: NewF32) -> NewF32 {
        NewF32(self.0 + o.0)
    }
}
impl Sub for NewF32 {
    type Output = NewF32;
    #[inline]
    fn sub(self, o: NewF32) -> NewF32 {
        NewF32(self.0 - o.0)
    }
}
impl Mul for NewF32 {
    type Output = NewF32;
    #[inline]
    fn mul(self, o: NewF32) -> NewF32 {
        NewF32(self.0 * o.0)
    }
}
impl Neg for NewF32 {
    type Output = NewF32;
    #[inline]
    fn neg(self) -> NewF32 {
        NewF32(-self.0)
    }
}
impl Div for NewF32 {
    type Output = NewF32;
    fn div(self, o: NewF32) -> NewF32 {
        NewF32(self.0 / o.0)
    }
}
num_boilerplate!(NewF32, |x: f64| NewF32(x as f32), |c: NewF32| c.0 as f64);

// ---------------------------------------------------------------------------------------------
#[derive(Copy, Clone, Debug, PartialEq)]
pub struct DDn(pub DD);
impl Add for DDn {
    type Output = DDn;
    #[inline]
    fn add(self, o: DDn) -> DDn {
        DDn(self.0 + o.0)
    }
}
impl Sub for DDn {
    type Output = DDn;
    #[inline]
    fn sub(self, o: DDn) -> DDn {
        DDn(self.0 - o.0)
    }
}
impl Mul for DDn {
    type Output = DDn;
    #[inline]
    fn mul(self, o: DDn) -> DDn {
        DDn(self.0 * o.0)
    }
}
impl Neg for DDn {
    type Output = DDn;
    #[inline]
    fn neg(self) -> DDn {
        DDn(-self.0)
    }
}
impl Div for DDn {
    type Output = DDn;
    fn div(self, o: DDn) -> DDn {
        // three-term long division
        let a = self.0;
        let b = o.0;
        let q1 = a.hi / b.hi;
        let r = a - b.mul_f64(q1);
        let q2 = r.hi / b.hi;
        let r = r - b.mul_f64(q2);
        let q3 = r.hi / b.hi;
        DDn(DD::from_f64(q1) + DD::from_f64(q2) + DD::from_f64(q3))
    }
}
num_boilerplate!(DDn, |x: f64| DDn(DD::from_f64(x)), |c: DDn| c.0.hi);
