//! C01 — every planned FFT computes the unnormalised DFT in ascending-frequency order
use super::Meta;
use crate::gen::Families;
use crate::runner::{Ctx, Tier};
use crate::types::*;
use proptest::prelude::*;

pub fn meta(tier: Tier) -> Meta {
    let (nb, dense, nmax, cases) = params(tier);
    Meta {
        rule: format!(
            "Cases = (planner in Auto/Scalar/Sse/Avx, f32|f64, direction, n, entry point in process/in-place/out-of-place/immutable, chunk count, input). \
             (a) complete unit-impulse basis for every n in 1..={nb} (one case = all n columns of the matrix through one entry point, single-chunk calls, analytic reference column exp(-+2*pi*i*j*k/n) in double-double); \
             (b) every n in 0..={dense} with impulses at 0,1,n/2,n-1, a dense uniform vector and one rotating structured family, all 4 planners x 4 entry points; \
             (c) {cases} proptest-drawn cases over constructed length families up to {nmax} (Rader/Bluestein primes, Cunningham primes, prime powers, semiprimes, smooth numbers, butterfly products and planner thresholds, AVX row residues, smooth*bigprime), 16 input families, 1-3 chunks; \
             (d) exact finite-field instantiation of the portable code (see C14 for the full version). \
             Oracle: relative L2 distance to an independent reference DFT (own radix-2+Bluestein FFT in f64 for f32 results, in double-double for f64 results, validated against a naive double-double DFT at start-up) <= 4*B, B = 16*eps*log2(2n). \
             Non-trivial: n >= 2 and a non-zero input; distinct = distinct (planner,type,direction,n,entry,chunks,input) tuples.",
            nb = nb, dense = dense, nmax = nmax, cases = cases
        ),
        exhaustive: false,
        exhaustive_note: format!("parts (a) and (b) enumerate their stated finite domains completely; part (c) is sampled"),
        assumptions: vec![
            "inputs are finite with n*max|x| far below overflow and the L2 norm far above the subnormal range".into(),
            "the reference FFT (validated at start-up against a naive double-double DFT, disagreement < 1e-25) is correct".into(),
            "'up to rounding' is instantiated as 4*B with B the C02 bound, so any C02-conforming implementation passes".into(),
        ],
    }
}

fn params(tier: Tier) -> (usize, usize, usize, u32) {
    match tier {
        Tier::Quick => (128, 512, 1 << 15, 2400),
        Tier::Thorough => (512, 4096, 1 << 20, 4800),
    }
}

const ROT: [&str; 10] = ["positive", "gaussish", "const", "tone", "tone_off", "alt", "spikes", "conjsym", "wide", "ramp"];

pub fn worker(ctx: &mut Ctx) {
    let (nb, dense, nmax, cases) = params(ctx.tier);
    // (a) complete impulse basis
    for n in 1..=nb {
        for ty in TYS {
            for dir in DIRS {
                for planner in PLANNERS {
                    for entry in ENTRIES {
                        if ctx.mine() {
                            ctx.exec(&Case::new("C01", "basis", planner, ty, dir, n).with_entry(entry).with_input(InputSpec::fam("whole-basis", 0)));
                        }
                    }
                }
            }
        }
        if ctx.done() {
            return;
        }
    }
    // (b) dense sweep. Loop order keeps the reference cache hot: input outermost within (n, ty, dir).
    for n in 0..=dense {
        for ty in TYS {
            for dir in DIRS {
                if !ctx.mine() {
                    continue;
                }
                let mut inputs: Vec<InputSpec> = vec![];
                if n > nb {
                    let mut pos = vec![0, 1, n / 2, n.saturating_sub(1)];
                    pos.dedup();
                    for p in pos {
                        inputs.push(InputSpec::fam("impulse", p as u64));
                    }
                }
                inputs.push(InputSpec::fam("uniform", n as u64 + 7));
                inputs.push(InputSpec::fam(ROT[n % ROT.len()], n as u64 * 31 + 1));
                for input in inputs {
                    for planner in PLANNERS {
                        for entry in ENTRIES {
                            ctx.exec(&Case::new("C01", "numeric", planner, ty, dir, n).with_entry(entry).with_input(input.clone()));
                        }
                    }
                }
            }
        }
        if ctx.done() {
            return;
        }
    }
    // (c) structured random
    let fams = Families::new(nmax);
    let nf = fams.count();
    let strat = (
        0..nf,
        any::<u64>(),
        0..4usize,
        0..2usize,
        0..2usize,
        0..4usize,
        0..crate::gen::INPUT_FAMILIES.len(),
        any::<u64>(),
        prop_oneof![4 => Just(1usize), 1 => Just(2usize), 1 => Just(3usize)],
    )
        .prop_map(move |(fam, r, pl, ty, dir, en, inf, seed, chunks)| {
            let (n, _) = fams.pick_biased(fam, r);
            // keep multi-chunk cases moderate in size
            let chunks = if n > 1 << 16 { 1 } else { chunks };
            Case::new("C01", "numeric", PLANNERS[pl], TYS[ty], DIRS[dir], n)
                .with_entry(ENTRIES[en])
                .with_chunks(chunks)
                .with_input(InputSpec::fam(crate::gen::INPUT_FAMILIES[inf], seed))
        });
    ctx.run_random("structured", cases / ctx.nshards as u32, strat);
}
