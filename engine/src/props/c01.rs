//! C01 — every planned FFT computes the unnormalised DFT in ascending-frequency order
use super::Meta;
use crate::gen::Families;
use crate::runner::{Ctx, Tier};
use crate::types::*;
use proptest::prelude::*;

pub fn meta(tier: Tier) -> Meta {
    let (nb, dense, nmax, cases) = params(tier);
    Meta {
        rule: format!(
            "Cases = (planner in Auto/Scalar/Sse/Avx, f32|f64, direction, n, entry point in process/in-place/out-of-place/immutable, chunk count, input). \
             (a) complete unit-impulse basis for every n in 1..={nb} (one case = all n columns of the matrix through one entry point, single-chunk calls, analytic reference column exp(-+2*pi*i*j*k/n) in double-double); \
             (b) every n in 0..={dense} with impulses at 0,1,n/2,n-1, a dense uniform vector and one rotating structured family, all 4 planners x 4 entry points; \
             (b2) every n up to 8192 (quick) / 65536 (thorough) in f32 on the three concrete planners with rotating entry point and direction, every 8th length also in f64; (b3) every prime up to 2^15 / 2^18 on the scalar and AVX planners; (b4) n <= 64 with 2, 3 and 4 chunks incl. silent (all-zero) chunks on every entry point; (b5) every prime with 23-smooth p-1 (Rader on every planner) up to 2^17 / 2^20; (b6) ~60 landmark lengths up to 2^17 (plus 5*2^19 and 21*2^17) / ~100 up to 2^22 (2^k, 3*2^k, 5*2^k, primes just above 2^16/2^18/2^20/2^21, large prime powers, radix-N lengths with >= 9 layers, semiprimes and mixed smooth lengths above 2^21) on the three concrete planners; (b7) every n of range (b) on planners with a minimal history (opposite direction of the same length, and a multiple/divisor, planned first); \
             (c) {cases} proptest-drawn cases over constructed length families up to {nmax} (Rader/Bluestein primes, Cunningham primes, prime powers, semiprimes, smooth numbers, butterfly products and planner thresholds, AVX row residues, smooth*bigprime), 16 input families, 1-3 chunks; \
             (d) exact finite-field instantiation of the portable code for every n up to 768 / 4096: output must equal sum_j x_j*omega^(-+jk) in GF(p^2) with zero tolerance (see C14 for the full version). \
             Oracle: relative L2 distance to an independent reference DFT (own radix-2+Bluestein FFT in f64 for f32 results, in double-double for f64 results, validated against a naive double-double DFT at start-up) <= 4*B, B = 16*eps*log2(2n). \
             Non-trivial: n >= 2 and a non-zero input; distinct = distinct (planner,type,direction,n,entry,chunks,input) tuples.",
            nb = nb, dense = dense, nmax = nmax, cases = cases
        ),
        exhaustive: false,
        exhaustive_note: format!("parts (a) and (b) enumerate their stated finite domains completely; part (c) is sampled"),
        assumptions: vec![
            "inputs are finite with n*max|x| far below overflow and the L2 norm far above the subnormal range".into(),
            "the reference FFT (validated at start-up against a naive double-double DFT, disagreement < 1e-25) is correct".into(),
            "'up to rounding' is instantiated as 4*B with B the C02 bound, so any C02-conforming implementation passes".into(),
        ],
    }
}

fn params(tier: Tier) -> (usize, usize, usize, u32) {
    match tier {
        Tier::Quick => (128, 512, 1 << 15, 2400),
        Tier::Thorough => (512, 4096, 1 << 20, 4800),
    }
}

const ROT: [&str; 10] = ["positive", "gaussish", "const", "tone", "tone_off", "alt", "spikes", "conjsym", "wide", "ramp"];

pub fn worker(ctx: &mut Ctx) {
    let (nb, dense, nmax, cases) = params(ctx.tier);
    // (a) complete impulse basis
    for n in 1..=nb {
        for ty in TYS {
            for dir in DIRS {
                for planner in PLANNERS {
                    for entry in ENTRIES {
                        if ctx.mine() {
                            ctx.exec(&Case::new("C01", "basis", planner, ty, dir, n).with_entry(entry).with_input(InputSpec::fam("whole-basis", 0)));
                        }
                    }
                }
            }
        }
        if ctx.done() {
            return;
        }
    }
    // (b) dense sweep. Loop order keeps the reference cache hot: input outermost within (n, ty, dir).
    for n in 0..=dense {
        for ty in TYS {
            for dir in DIRS {
                if !ctx.mine() {
                    continue;
                }
                let mut inputs: Vec<InputSpec> = vec![];
                if n > nb {
                    let mut pos = vec![0, 1, n / 2, n.saturating_sub(1)];
                    pos.dedup();
                    for p in pos {
                        inputs.push(InputSpec::fam("impulse", p as u64));
                    }
                }
                inputs.push(InputSpec::fam("uniform", n as u64 + 7));
                inputs.push(InputSpec::fam(ROT[n % ROT.len()], n as u64 * 31 + 1));
                for input in inputs {
                    for planner in PLANNERS {
                        for entry in ENTRIES {
                            ctx.exec(&Case::new("C01", "numeric", planner, ty, dir, n).with_entry(entry).with_input(input.clone()));
                        }
                    }
                }
            }
        }
        if ctx.done() {
            return;
        }
    }
    // (b7) the same dense range on planners WITH a minimal history: the opposite direction of the same length (and for every
    //      third n a multiple or a divisor) planned first on the same planner; the transform must still be the DFT (C10 has the
    //      long histories; this pass makes the commonest real-world sequence -- forward then inverse of one length -- dense)
    for n in 2..=dense {
        for ty in TYS {
            for dir in DIRS {
                if !ctx.mine() {
                    continue;
                }
                let mut reqs = vec![Req { n, dir: dir.other() }];
                if n % 3 == 0 {
                    reqs.push(Req { n: 2 * n, dir });
                } else if n % 3 == 1 && n % 2 == 0 {
                    reqs.push(Req { n: n / 2, dir: dir.other() });
                }
                reqs.push(Req { n, dir });
                let pick = reqs.len() - 1;
                let input = InputSpec::fam(if n % 2 == 0 { "uniform" } else { "gaussish" }, n as u64 + 91);
                for (pi, planner) in PLANNERS.iter().enumerate() {
                    ctx.exec(
                        &Case::new("C01", "numeric", *planner, ty, dir, n)
                            .with_entry(ENTRIES[(n + pi) % 4])
                            .with_source(Source::History { reqs: reqs.clone(), pick })
                            .with_input(input.clone()),
                    );
                }
            }
        }
        if ctx.done() {
            return;
        }
    }
    // (b2) light dense sweep far beyond (b): every n, f32 (cheap f64 reference) on the three concrete planners,
    //      rotating entry point/direction; every 8th n additionally in f64 against the double-double reference
    let (light, primes_to, exact_to) = match ctx.tier {
        Tier::Quick => (8192usize, 1usize << 15, 768usize),
        Tier::Thorough => (65536, 1 << 18, 4096),
    };
    for n in (dense + 1..=light).rev() {
        if !ctx.mine() {
            continue;
        }
        let dir = DIRS[n % 2];
        let input = InputSpec::fam(if n % 3 == 0 { "gaussish" } else { "uniform" }, n as u64);
        for (pi, planner) in [Planner::Scalar, Planner::Sse, Planner::Avx].iter().enumerate() {
            ctx.exec(&Case::new("C01", "numeric", *planner, Ty::F32, dir, n).with_entry(ENTRIES[(n + pi) % 4]).with_input(input.clone()));
        }
        if n % 8 == 0 {
            for (pi, planner) in [Planner::Scalar, Planner::Sse, Planner::Avx].iter().enumerate() {
                ctx.exec(&Case::new("C01", "numeric", *planner, Ty::F64, dir.other(), n + 1).with_entry(ENTRIES[(n / 8 + pi) % 4]).with_input(input.clone()));
            }
        }
        if ctx.done() {
            return;
        }
    }
    // (b4) small lengths with 2 and 4 chunks (two-at-a-time SIMD paths) incl. silent chunks, every entry point
    for n in 1..=64usize {
        for ty in TYS {
            if !ctx.mine() {
                continue;
            }
            for planner in PLANNERS {
                for entry in ENTRIES {
                    for (k, fam) in [(2usize, "uniform"), (4, "silence_mix"), (3, "silence_mix")] {
                        ctx.exec(&Case::new("C01", "numeric", planner, ty, DIRS[(n + k) % 2], n).with_entry(entry).with_chunks(k).with_input(InputSpec::fam(fam, n as u64 + k as u64)));
                    }
                }
            }
        }
    }
    // (b5) complete sparse families at larger bounds: every prime whose p-1 is 23-smooth (Rader on every planner)
    {
        let bound = match ctx.tier {
            Tier::Quick => 1usize << 17,
            Tier::Thorough => 1 << 20,
        };
        let fams = Families::new(bound);
        let rader: Vec<usize> = fams.fams.iter().find(|f| f.0 == "prime_rader_23smooth").map(|f| f.1.clone()).unwrap_or_default();
        for &q in rader.iter().rev() {
            if q <= primes_to || !ctx.mine() {
                continue;
            }
            let input = InputSpec::fam("uniform", q as u64);
            for (pi, planner) in [Planner::Scalar, Planner::Avx, Planner::Sse].iter().enumerate() {
                ctx.exec(&Case::new("C01", "numeric", *planner, TYS[(q / 2 + pi) % 2], DIRS[(q / 4 + pi) % 2], q).with_entry(ENTRIES[(q / 2 + pi) % 4]).with_input(input.clone()));
            }
            if ctx.done() {
                return;
            }
        }
    }
    // (b6) landmark lengths: where size-triggered behaviour (index width, digit-reversal depth, table sizes, base tables keyed
    //      by the exponents of 2 and 3) first changes -- every planner, f32 and (up to 2^16) f64
    {
        let mut marks = crate::gen::landmark_lengths(ctx.tier.pick(17u32, 21), ctx.tier == Tier::Thorough);
        // two of the multi-million lengths also in the quick tier (5*2^19 and 21*2^17: mixed radix-N cross factors)
        marks.extend([5usize << 19, 21 << 17]);
        marks.sort();
        marks.dedup();
        for (i, &n) in marks.iter().enumerate().rev() {
            for (pi, planner) in [Planner::Scalar, Planner::Sse, Planner::Avx].iter().enumerate() {
                if !ctx.mine() {
                    continue;
                }
                let input = InputSpec::fam(if i % 2 == 0 { "uniform" } else { "gaussish" }, n as u64);
                ctx.exec(&Case::new("C01", "numeric", *planner, Ty::F32, DIRS[(i + pi) % 2], n).with_entry(ENTRIES[(i + pi) % 4]).with_input(input.clone()));
                if n <= 1 << 16 || ctx.tier == Tier::Thorough && n <= 1 << 19 {
                    ctx.exec(&Case::new("C01", "numeric", *planner, Ty::F64, DIRS[(i + pi + 1) % 2], n).with_entry(ENTRIES[(i + pi + 2) % 4]).with_input(input));
                } else if ctx.tier == Tier::Thorough && n > 1 << 21 {
                    // byte-size thresholds (e.g. "above 32 MiB of data") are reached by f64 at half the length: the multi-million
                    // landmarks also in f64 (one direction per length, so that the double-double reference is shared)
                    ctx.exec(&Case::new("C01", "numeric", *planner, Ty::F64, DIRS[i % 2], n).with_entry(ENTRIES[(i + pi + 2) % 4]).with_input(input));
                }
            }
            if ctx.done() {
                return;
            }
        }
    }
    // (b3) every prime (Rader/Bluestein decisions, primitive roots, chirps are per-prime) up to a larger bound
    {
        let fams = Families::new(primes_to);
        let primes: Vec<usize> = fams.fams.iter().find(|f| f.0 == "prime_any").map(|f| f.1.clone()).unwrap_or_default();
        for &q in primes.iter().rev() {
            if q <= light || !ctx.mine() {
                continue;
            }
            let input = InputSpec::fam("uniform", q as u64);
            for (pi, planner) in [Planner::Scalar, Planner::Avx].iter().enumerate() {
                ctx.exec(&Case::new("C01", "numeric", *planner, Ty::F32, DIRS[(q / 2 + pi) % 2], q).with_entry(ENTRIES[(q / 2 + pi) % 4]).with_input(input.clone()));
            }
            if ctx.done() {
                return;
            }
        }
    }
    // (d) exact finite-field instantiation of the portable code (full version: C14)
    for n in (1..=exact_to).rev() {
        if !ctx.mine() {
            continue;
        }
        let fam = if n <= 64 { "whole-basis" } else { "random-field" };
        ctx.exec(&Case::new("C01", "exact", Planner::Auto, Ty::F64, DIRS[n % 2], n).with_entry(ENTRIES[n % 4]).with_input(InputSpec::fam(fam, n as u64)).with_p(vec![0]));
        if ctx.done() {
            return;
        }
    }
    // (c) structured random
    let fams = Families::new(nmax);
    let nf = fams.count();
    let strat = (
        0..nf,
        any::<u64>(),
        0..4usize,
        0..2usize,
        0..2usize,
        0..4usize,
        0..crate::gen::INPUT_FAMILIES.len(),
        any::<u64>(),
        prop_oneof![4 => Just(1usize), 1 => Just(2usize), 1 => Just(3usize)],
    )
        .prop_map(move |(fam, r, pl, ty, dir, en, inf, seed, chunks)| {
            let (n, _) = fams.pick_biased(fam, r);
            // keep multi-chunk cases moderate in size
            let chunks = if n > 1 << 16 { 1 } else { chunks };
            Case::new("C01", "numeric", PLANNERS[pl], TYS[ty], DIRS[dir], n)
                .with_entry(ENTRIES[en])
                .with_chunks(chunks)
                .with_input(InputSpec::fam(crate::gen::INPUT_FAMILIES[inf], seed))
        });
    ctx.run_random("structured", cases / ctx.nshards as u32, strat);
}
