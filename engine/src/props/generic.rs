//! Workers of C05 (work/structure/scratch size) and C14 (foreign element types)
use super::Meta;
use crate::gen::Families;
use crate::runner::{Ctx, Tier};
use crate::types::*;
use proptest::prelude::*;

// =============================================================================================
// C05
fn c05_params(tier: Tier) -> (usize, usize, usize, usize, u32) {
    // (ops dense bound, structure sweep bound, scratch dense bound, structured nmax, structured cases)
    match tier {
        Tier::Quick => (8192, 1 << 20, 16384, 1 << 18, 1280),
        Tier::Thorough => (32768, 1 << 22, 65536, 1 << 21, 3200),
    }
}
pub fn c05_meta(tier: Tier) -> Meta {
    let (ops, st, sc, nmax, cases) = c05_params(tier);
    Meta {
        rule: format!(
            "Work clause: FftPlanner over an operation-counting element type (f64 payload, thread-local counters; both SIMD planners must decline it) for every n in 2..={ops} x both directions x process/in-place/out-of-place/immutable, one chunk: additions+subtractions+multiplications <= 64*n*log2(n), and the counts on three inputs (zeros, random, huge/tiny mix) must be IDENTICAL (input independence); plus {cases} proptest-drawn structured lengths up to {nmax}; plus safe primes q = 2r+1 (r prime) and their multiples by 2, 3, 4, 6 up to 2^18 (quick: ~120 of them plus every Cunningham chain of length >= 3) / 2^19 (thorough: all), and the same work clause with a 256-byte counting element (size_of::<Complex<T>>() = 512) on every n <= 1024/4096 and on the safe primes up to 2^15/2^16 (chains of length >= 3 up to 2^16/2^17). \
             Structural clause: the plan text (plan-report hook) of Auto/Scalar/Sse/Avx x f32/f64 for every n in 2..={st}, parsed independently: no naive `Dft(k)` node with k > 32. \
             Scratch clause: all three advertised scratch lengths <= 12n+64 for every n in 0..={sc} x 4 planners x f32/f64 x 2 directions (transform constructed) and the structured large lengths. \
             The structural clause is additionally decided on what is BUILT: a cfg-guarded construction hook records every naive `Dft` the library constructs, and building the plan of every n in the scratch-clause range (and every history below) must not construct one longer than 32, whatever the plan text says. \
             The work clause is also checked on planners WITH history: one operation-counting planner is fed every n in 2..=2560 (quick) / 8192 (thorough) ascending, descending, the prime neighbourhoods ((q-1)/2, q-1, q, 2q, 2q+1), and 12/48 seed-driven shuffled subsequences with mixed directions; every returned transform is run and counted against 64*n*log2(n). \
             The scratch clause is also checked on planners WITH history: for every prime p up to 1024 (quick) / 8192 (thorough) and every 2^a*3^b length M in [2p,16p], the history [M, p, M', p'] (' = other direction) on the Scalar/Sse/Avx planners. \
             Non-trivial: n >= 2; distinct = (kind, planner/type, n or window or history, entry).",
        ),
        exhaustive: true,
        exhaustive_note: "all three clauses enumerate their stated ranges completely; the structured large lengths are sampled".into(),
        assumptions: vec![
            "for SSE/AVX the 'no naive node' clause is decided on the reported plan (SIMD code does not accept a counting element type; timing is not used as an oracle)".into(),
            "plans whose Debug text is not understood by the parser are counted as not judged".into(),
        ],
    }
}
pub fn c05_worker(ctx: &mut Ctx) {
    let (ops, st, sc, nmax, cases) = c05_params(ctx.tier);
    // work clause; large n first so that the heavy items spread across shards
    for n in (2..=ops).rev() {
        if !ctx.mine() {
            continue;
        }
        for dir in DIRS {
            for entry in ENTRIES {
                // every length on the in-place entry point; the other entry points on a rotating third
                if entry == Entry::Inplace || (n + entry as usize) % 3 == 0 || n <= 512 {
                    ctx.exec(&Case::new("C05", "ops", Planner::Auto, Ty::F64, dir, n).with_entry(entry).with_input(InputSpec::fam("uniform", n as u64)));
                }
            }
        }
        if ctx.done() {
            return;
        }
    }
    // work clause for number-theoretic chains: safe primes q (q = 2r+1, r prime -- Rader/Bluestein decisions recurse along such
    // Cunningham chains) and their small multiples, up to 2^16 (quick) / 2^18 (thorough) with the 8-byte element and up to
    // 2^15 / 2^17 with the 256-byte element (a planner that budgets by size_of::<Complex<T>>() decides differently there)
    {
        let top = ctx.tier.pick(1usize << 17, 1 << 18);
        let mut safe: Vec<usize> = vec![];
        let mut q = 23usize;
        while q <= top {
            if crate::gen::is_prime(q as u64) && crate::gen::is_prime(((q - 1) / 2) as u64) {
                safe.push(q);
            }
            q += 2;
        }
        // all of them in thorough; an even spread of ~120 in quick, always including the largest few
        let step = if ctx.tier == Tier::Quick { (safe.len() / 120).max(1) } else { 1 };
        for (i, &q) in safe.iter().enumerate().rev() {
            // chains of length >= 3 (q, (q-1)/2, (q-3)/4 all prime) are always taken: that is where a recursion shows
            let chain3 = (q - 3) % 4 == 0 && crate::gen::is_prime(((q - 3) / 4) as u64);
            if i % step != 0 && i + 6 < safe.len() && !chain3 {
                continue;
            }
            for (mi, m) in [1usize, 2, 3, 4, 6].iter().enumerate() {
                let n = q * m;
                if n > top * 2 || !ctx.mine() {
                    continue;
                }
                ctx.exec(&Case::new("C05", "ops", Planner::Auto, Ty::F64, DIRS[(i + mi) % 2], n).with_entry(ENTRIES[(i + mi) % 4]).with_input(InputSpec::fam("uniform", n as u64)).with_p(vec![0]));
                if (n <= top / 4 || chain3 && n <= top / 2) && (mi == 0 || mi == 1) {
                    ctx.exec(&Case::new("C05", "ops", Planner::Scalar, Ty::F64, DIRS[(i + mi + 1) % 2], n).with_entry(ENTRIES[(i + mi + 1) % 4]).with_input(InputSpec::fam("uniform", n as u64)).with_p(vec![1]));
                }
            }
            if ctx.done() {
                return;
            }
        }
        // the fat element on a dense range as well
        for n in 2..=ctx.tier.pick(1024usize, 4096) {
            if ctx.mine() {
                ctx.exec(&Case::new("C05", "ops", Planner::Auto, Ty::F64, DIRS[n % 2], n).with_entry(ENTRIES[n % 4]).with_input(InputSpec::fam("uniform", n as u64)).with_p(vec![1]));
            }
        }
    }
    // structural clause
    let block = 8192usize;
    let mut start = 2usize;
    while start <= st {
        let count = block.min(st + 1 - start);
        for ty in TYS {
            for planner in PLANNERS {
                if ctx.mine() {
                    ctx.exec(&Case::new("C05", "structure", planner, ty, Dir::Fwd, start).with_p(vec![start as i64, count as i64, 1]));
                }
            }
        }
        start += block;
    }
    // scratch clause
    for n in 0..=sc {
        for ty in TYS {
            for planner in PLANNERS {
                if ctx.mine() {
                    let dir = if n % 2 == 0 { Dir::Fwd } else { Dir::Inv };
                    ctx.exec(&Case::new("C05", "scratchlen", planner, ty, dir, n));
                }
            }
        }
        if ctx.done() {
            return;
        }
    }
    // scratch clause on planners WITH history: every pair (M, p) of a 2^a*3^b length M in [2p, 16p] planned before a prime p
    // (a cached M is a candidate inner length of Bluestein's algorithm), and the reverse order
    {
        let pmax = ctx.tier.pick(1024usize, 8192);
        let fams = Families::new(pmax * 16);
        let primes: Vec<usize> = fams.fams.iter().find(|f| f.0 == "prime_any").map(|f| f.1.clone()).unwrap_or_default();
        let smooth: Vec<usize> = fams.fams.iter().find(|f| f.0 == "smooth3").map(|f| f.1.clone()).unwrap_or_default();
        for &q in primes.iter().filter(|&&q| q > 32 && q <= pmax) {
            for &m in smooth.iter().filter(|&&m| m >= 2 * q && m <= 16 * q) {
                if !ctx.mine() {
                    continue;
                }
                for planner in [Planner::Scalar, Planner::Sse, Planner::Avx] {
                    let ty = TYS[(q + m) % 2];
                    let dir = DIRS[(q / 2) % 2];
                    let reqs = vec![Req { n: m, dir }, Req { n: q, dir }, Req { n: m, dir: dir.other() }, Req { n: q, dir: dir.other() }];
                    ctx.exec(&Case::new("C05", "histscratch", planner, ty, dir, q).with_source(Source::History { reqs, pick: 4 }));
                }
            }
            if ctx.done() {
                return;
            }
        }
    }
    // work clause on planners WITH history: long request sequences on one operation-counting planner (ascending, descending,
    // prime neighbourhoods q-1, q, 2q, 2q+1, and seed-driven shuffles), every returned transform measured
    {
        let hi = ctx.tier.pick(2560i64, 8192);
        for planner in [Planner::Auto, Planner::Scalar] {
            for dir in DIRS {
                for mode in 0..3i64 {
                    if ctx.mine() {
                        let top = if mode == 2 { hi * 2 / 3 } else { hi };
                        ctx.exec(&Case::new("C05", "histops", planner, Ty::F64, dir, top as usize).with_entry(ENTRIES[(mode as usize + dir as usize) % 4]).with_p(vec![mode, top, 2]));
                    }
                }
            }
        }
        for s in 0..ctx.tier.pick(12u64, 48) {
            if ctx.mine() {
                let top = [hi, hi / 4, 2 * hi][(s % 3) as usize];
                ctx.exec(
                    &Case::new("C05", "histops", [Planner::Auto, Planner::Scalar][(s % 2) as usize], Ty::F64, DIRS[((s / 2) % 2) as usize], top as usize)
                        .with_input(InputSpec::fam("uniform", ctx.seed ^ (s * 7919)))
                        .with_p(vec![3, top, 2 + (s as i64 % 5) * 100]),
                );
            }
        }
        if ctx.done() {
            return;
        }
    }
    let fams = Families::new(nmax);
    let nf = fams.count();
    let f2 = Families::new(nmax);
    let strat = (0..nf, any::<u64>(), 0..4usize, 0..2usize, 0..2usize).prop_map(move |(fam, r, pl, ty, dir)| {
        let (n, _) = fams.pick(fam, r);
        Case::new("C05", "scratchlen", PLANNERS[pl], TYS[ty], DIRS[dir], n)
    });
    ctx.run_random("structured-scratchlen", cases / ctx.nshards as u32, strat);
    let strat = (0..nf, any::<u64>(), 0..2usize, 0..4usize).prop_map(move |(fam, r, dir, en)| {
        let (n, _) = f2.pick_capped(fam, r, 1 << 16);
        Case::new("C05", "ops", Planner::Auto, Ty::F64, DIRS[dir], n).with_entry(ENTRIES[en]).with_input(InputSpec::fam("uniform", r))
    });
    ctx.run_random("structured-ops", cases / 4 / ctx.nshards as u32, strat);
}

// =============================================================================================
// C14
fn c14_params(tier: Tier) -> (usize, usize, usize, u32) {
    // (exact dense bound, alt-type dense bound, structured nmax for exact, structured cases)
    match tier {
        Tier::Quick => (1536, 768, 12000, 960),
        Tier::Thorough => (4096, 2048, 20000, 2400),
    }
}
pub fn c14_meta(tier: Tier) -> Meta {
    let (ex, alt, nmax, cases) = c14_params(tier);
    Meta {
        rule: format!(
            "Element types other than f32/f64 that satisfy the public numeric bound: (1) a prime field GF(p) (so Complex<T> = GF(p^2), p = -1 mod lcm(twiddle moduli), p > 2^40): FftPlannerAvx/Sse::new() must return Err, FftPlanner/FftPlannerScalar plan every n in 1..={ex} x both directions x the 4 entry points (rotating) x 1-2 chunks, whole impulse basis for n <= 64 plus two uniformly random field vectors per case, and the output must equal sum_j x_j*omega_n^(-+jk) EXACTLY (zero tolerance; full naive field DFT for n <= 1024, a random linear functional over all outputs above), with no call to a non-ring method (abs/signum/is_positive/Rem/ToPrimitive panic) and no division while processing; {cases} proptest-drawn structured lengths up to {nmax}. \
             (2) double-double (16 bytes), (3) an f64 with a tag word every operation propagates (16 bytes), (4) a repr(transparent) newtype over f32 (same layout as f32, different TypeId): SIMD planners must decline, every n in 1..={alt}, numerics within B(n,f64) / 4*B(n,f64) / 4*B(n,f32) of the double-double reference and every output tag intact. \
             Constants are decoded from f64 by replaying compute_twiddle's expression bit-exactly (fallback: unique grid angle within 1e-13); undecodable/ambiguous constants make a case 'not judged'. \
             Non-trivial: n >= 2.",
        ),
        exhaustive: false,
        exhaustive_note: "dense ranges enumerated completely; inputs are the basis (n<=64) and random vectors (Schwartz-Zippel miss probability <= n/p^2 < 2^-60)".into(),
        assumptions: vec![
            "the exact oracle decides the portable generic code only (SIMD planners decline foreign types, which is itself checked)".into(),
            "the plan-report hook is used to learn which twiddle moduli to expect; an incomplete list can only produce 'not judged', never a verdict".into(),
        ],
    }
}
pub fn c14_worker(ctx: &mut Ctx) {
    let (ex, alt, nmax, cases) = c14_params(ctx.tier);
    for n in (1..=ex).rev() {
        if !ctx.mine() {
            continue;
        }
        for dir in DIRS {
            for (pi, planner) in [Planner::Auto, Planner::Scalar].iter().enumerate() {
                let entry = ENTRIES[(n + pi + if dir == Dir::Inv { 2 } else { 0 }) % 4];
                let fam = if n <= 64 { "whole-basis" } else { "random-field" };
                ctx.exec(
                    &Case::new("C14", "exact", *planner, Ty::F64, dir, n)
                        .with_entry(entry)
                        .with_chunks(1 + (n + pi) % 2)
                        .with_input(InputSpec::fam(fam, n as u64 * 3 + pi as u64))
                        .with_p(vec![1]),
                );
            }
            if n <= 64 {
                for entry in ENTRIES {
                    ctx.exec(&Case::new("C14", "exact", Planner::Auto, Ty::F64, dir, n).with_entry(entry).with_input(InputSpec::fam("whole-basis", n as u64)).with_p(vec![1]));
                }
            }
            // the opposite direction planned first on the same planner (cache interaction in the portable planner)
            ctx.exec(
                &Case::new("C14", "exact", Planner::Auto, Ty::F64, dir, n)
                    .with_entry(ENTRIES[(n + 1) % 4])
                    .with_input(InputSpec::fam("random-field", n as u64 + 5))
                    .with_p(vec![1, 1]),
            );
        }
        if ctx.done() {
            return;
        }
    }
    // landmark lengths beyond the dense range (radix-4 digit-reversal depth, long radix chains, big Rader/Bluestein primes)
    for (i, &n) in [1usize << 11, 1 << 12, 1 << 13, 1 << 14, 1 << 15, 3 << 10, 3 << 11, 3 << 12, 3 << 13, 5 << 11, 5 << 12, 3083, 4099, 12289, 6561, 15625, 16807, 14641, 8191, 10007]
        .iter()
        .enumerate()
    {
        if !ctx.mine() {
            continue;
        }
        for dir in DIRS {
            ctx.exec(
                &Case::new("C14", "exact", [Planner::Auto, Planner::Scalar][i % 2], Ty::F64, dir, n)
                    .with_entry(ENTRIES[(i + dir as usize) % 4])
                    .with_input(InputSpec::fam("random-field", n as u64))
                    .with_p(vec![1]),
            );
        }
    }
    for n in (1..=alt).rev() {
        if !ctx.mine() {
            continue;
        }
        for which in 0..3i64 {
            for dir in DIRS {
                let entry = ENTRIES[(n + which as usize + if dir == Dir::Inv { 1 } else { 0 }) % 4];
                ctx.exec(
                    &Case::new("C14", "altnum", if n % 2 == 0 { Planner::Auto } else { Planner::Scalar }, Ty::F64, dir, n)
                        .with_entry(entry)
                        .with_chunks(1 + n % 2)
                        .with_input(InputSpec::fam(["uniform", "gaussish", "tone_off", "spikes"][n % 4], n as u64))
                        .with_p(vec![which]),
                );
            }
        }
        if ctx.done() {
            return;
        }
    }
    let fams = Families::new(nmax);
    let nf = fams.count();
    let strat = (0..nf, any::<u64>(), 0..2usize, 0..2usize, 0..4usize, 1..=2usize).prop_map(move |(fam, r, pl, dir, en, k)| {
        let (n, _) = fams.pick(fam, r);
        Case::new("C14", "exact", [Planner::Auto, Planner::Scalar][pl], Ty::F64, DIRS[dir], n)
            .with_entry(ENTRIES[en])
            .with_chunks(k)
            .with_input(InputSpec::fam("random-field", r))
            .with_p(vec![1])
    });
    ctx.run_random("structured-exact", cases / ctx.nshards as u32, strat);
}
