//! C12 — public algorithm constructors compose into correct transforms
use super::Meta;
use crate::gen::{gcd, is_prime, Stream};
use crate::props::calls::shape_matrix;
use crate::runner::{Ctx, Tier};
use crate::trees::*;
use crate::types::*;
use proptest::prelude::*;

fn params(tier: Tier) -> (usize, usize, usize, u32) {
    // (depth<=1 composite cap, depth-2 composite cap, random max length, random trees)
    match tier {
        Tier::Quick => (768, 144, 6000, 1600),
        Tier::Thorough => (4096, 1536, 20000, 9600),
    }
}

pub fn meta(tier: Tier) -> Meta {
    let (c1, c2, rmax, cases) = params(tier);
    Meta {
        rule: format!(
            "Expression trees over the public constructors Radix4::new / new_with_base, Radix3::new / new_with_base, MixedRadix, MixedRadixSmall, GoodThomasAlgorithm, GoodThomasAlgorithmSmall, RadersAlgorithm, BluesteinsAlgorithm, Dft, Butterfly1..32 and planner-produced inner transforms. Trees are CONSTRUCTED to satisfy each constructor's documented/asserted preconditions (equal directions, coprime lengths, len+1 prime, inner >= 2*len-1, small-scratch inners for the *Small variants), and those preconditions are re-checked on the actually built children before a constructor panic is counted as a violation. \
             Bounded-exhaustive: every tree of depth <= 1 over leaves Butterfly(n)/Dft(n), n in 1..=32, with composite length <= {c1}; every depth-2 tree (a depth-1 tree of length <= 64 combined with a leaf through every binary constructor in both orders, or wrapped by every unary constructor) with composite length <= {c2}. Random: {cases} proptest-drawn (length, seed) pairs expanded by a length-directed generator into trees of depth <= 4 and length <= {rmax} (Rader inside Bluestein inside mixed radix, planner-produced leaves up to 64, ...). Planner-produced inners: Rader (whenever m+1 is prime) and one rotating other constructor (Bluestein, Radix4/Radix3 with base, MixedRadix) over the transform each concrete planner returns for EVERY m in 2..=600 (quick) / 2000 (thorough), guard-paged on all entry points with exactly the advertised scratch plus numeric checks. Large composites: a constructed list of ~150 (quick) / ~250 (thorough) trees with composite length 30 000..300 000 (thorough: 1 200 000) covering every constructor kind (Radix4/Radix3 chains with and without base, all four binary constructors in both orders over a large and a small child, Rader and Bluestein over large inner transforms), judged numerically on all entry points plus a guard-paged and a NaN-scratch call. \
             Oracles per tree (f32 and f64, both directions): construction does not panic; C01 numeric check against the reference DFT on all 4 entry points; exact DFT in GF(p^2) for the generic build of the same tree; guard-paged calls with exactly the advertised scratch, 2 chunks, both guard orientations (C03); chunk isolation with NaN filler, 3 chunks (C07); NaN-filled scratch/output, exact and +1 scratch length, bitwise (C08); a rotating part of the call-shape matrix (C09). The same trees also run on the build with debug assertions. \
             Non-trivial: per the call-level check applied (n >= 2 and its own rule); distinct = (tree, check, type, direction, entry, parameters). The histogram reports tree depth and root constructor.",
        ),
        exhaustive: true,
        exhaustive_note: "depth <= 1 and the stated depth-2 family are enumerated completely within the stated caps; deeper trees are sampled".into(),
        assumptions: vec!["the *Small constructors' asserted requirements (0 out-of-place scratch, in-place scratch <= len) are treated as documented preconditions".into()],
    }
}

fn leaf_variants(n: usize) -> Vec<Tree> {
    let mut v = vec![Tree::Dft(n)];
    if BUTTERFLY_LENS.contains(&n) {
        v.push(Tree::Butterfly(n));
    }
    v
}
fn leaf_pref(n: usize) -> Tree {
    if BUTTERFLY_LENS.contains(&n) {
        Tree::Butterfly(n)
    } else {
        Tree::Dft(n)
    }
}

/// unary constructors applicable to `t` within `cap`
fn unary_over(t: &Tree, cap: usize) -> Vec<Tree> {
    let l = tree_len(t);
    let mut v = vec![];
    for k in 0..=2u32 {
        if l << (2 * k) <= cap {
            v.push(Tree::Radix4Base(k, Box::new(t.clone())));
        }
        if l * 3usize.pow(k) <= cap {
            v.push(Tree::Radix3Base(k, Box::new(t.clone())));
        }
    }
    if is_prime(l as u64 + 1) && l + 1 <= cap {
        v.push(Tree::Raders(Box::new(t.clone())));
    }
    // Bluestein lengths n with 2n-1 <= l
    let top = (l + 1) / 2;
    let mut lens = vec![top, top.saturating_sub(1), top.saturating_sub(2), 1, 2, 3, top / 2];
    lens.retain(|&n| n >= 1 && 2 * n - 1 <= l && n <= cap);
    lens.sort();
    lens.dedup();
    for n in lens {
        v.push(Tree::Bluesteins(n, Box::new(t.clone())));
    }
    v
}
fn binary_over(a: &Tree, b: &Tree, cap: usize) -> Vec<Tree> {
    let (la, lb) = (tree_len(a), tree_len(b));
    let mut v = vec![];
    if la * lb > cap {
        return v;
    }
    let (ba, bb) = (Box::new(a.clone()), Box::new(b.clone()));
    v.push(Tree::MixedRadix(ba.clone(), bb.clone()));
    v.push(Tree::MixedRadixSmall(ba.clone(), bb.clone()));
    if gcd(la as u64, lb as u64) == 1 {
        v.push(Tree::GoodThomas(ba.clone(), bb.clone()));
        v.push(Tree::GoodThomasSmall(ba, bb));
    }
    v
}

pub fn depth1_trees(cap: usize) -> Vec<Tree> {
    let mut out = vec![];
    // nullary composite constructors
    let mut p = 1;
    while p <= cap {
        out.push(Tree::Radix4(p));
        p *= 2;
    }
    let mut p = 1;
    while p <= cap {
        out.push(Tree::Radix3(p));
        p *= 3;
    }
    for n in 1..=32usize {
        for l in leaf_variants(n) {
            out.extend(unary_over(&l, cap));
        }
    }
    for a in 1..=32usize {
        for b in 1..=32usize {
            if a * b > cap {
                continue;
            }
            for la in leaf_variants(a) {
                for lb in leaf_variants(b) {
                    out.extend(binary_over(&la, &lb, cap));
                }
            }
        }
    }
    out
}

pub fn depth2_trees(cap: usize) -> Vec<Tree> {
    // inner depth-1 trees: preferred leaf kinds only, length <= 64
    let mut inner = vec![];
    for n in 1..=32usize {
        inner.extend(unary_over(&leaf_pref(n), 64));
    }
    for a in 1..=32usize {
        for b in a..=32usize {
            if a * b <= 64 {
                inner.extend(binary_over(&leaf_pref(a), &leaf_pref(b), 64));
            }
        }
    }
    for p in [16usize, 32, 64, 9, 27] {
        inner.push(if p % 2 == 0 { Tree::Radix4(p) } else { Tree::Radix3(p) });
    }
    let mut out = vec![];
    for t in &inner {
        out.extend(unary_over(t, cap));
        for n in 1..=32usize {
            let l = leaf_pref(n);
            out.extend(binary_over(t, &l, cap));
            out.extend(binary_over(&l, t, cap));
        }
    }
    out
}

/// Length-directed random tree: builds a tree of exactly `len` using only constructions whose preconditions hold.
pub fn tree_of_len(len: usize, st: &mut Stream, depth: usize, for_field: bool) -> Tree {
    let len = len.max(1);
    let choice = st.below(100);
    // leaves
    if depth == 0 || len <= 2 {
        return leaf_for(len, st, for_field);
    }
    if len <= 32 && choice < 35 {
        return leaf_for(len, st, for_field);
    }
    if len.is_power_of_two() && choice < 20 {
        return Tree::Radix4(len);
    }
    if choice < 12 {
        // Bluestein over any inner of sufficient length
        let min_inner = 2 * len - 1;
        let inner_len = match st.below(3) {
            0 => min_inner.next_power_of_two(),
            1 => min_inner + st.below(8) as usize,
            _ => {
                let p = min_inner.next_power_of_two();
                if p / 4 * 3 >= min_inner {
                    p / 4 * 3
                } else {
                    p
                }
            }
        };
        if inner_len <= 60000 {
            return Tree::Bluesteins(len, Box::new(tree_of_len(inner_len, st, depth - 1, for_field)));
        }
    }
    if is_prime(len as u64) {
        if len > 2 && choice < 70 {
            return Tree::Raders(Box::new(tree_of_len(len - 1, st, depth - 1, for_field)));
        }
        let min_inner = 2 * len - 1;
        let inner_len = if st.below(2) == 0 { min_inner.next_power_of_two() } else { min_inner + 1 };
        return Tree::Bluesteins(len, Box::new(tree_of_len(inner_len, st, depth - 1, for_field)));
    }
    // radix-4 / radix-3 chains over a base
    if len % 4 == 0 && choice < 45 {
        let mut k = 1u32;
        while len % (1 << (2 * (k + 1))) == 0 && st.below(2) == 0 {
            k += 1;
        }
        let base = len >> (2 * k);
        return Tree::Radix4Base(k, Box::new(tree_of_len(base, st, depth - 1, for_field)));
    }
    if len % 3 == 0 && choice < 60 {
        let mut k = 1u32;
        while len % 3usize.pow(k + 1) == 0 && st.below(2) == 0 {
            k += 1;
        }
        let base = len / 3usize.pow(k);
        return Tree::Radix3Base(k, Box::new(tree_of_len(base, st, depth - 1, for_field)));
    }
    // a random nontrivial factorisation
    let mut divs = vec![];
    let mut d = 2;
    while d * d <= len {
        if len % d == 0 {
            divs.push(d);
            divs.push(len / d);
        }
        d += 1;
    }
    if divs.is_empty() {
        return leaf_for(len, st, for_field);
    }
    let a = divs[st.below(divs.len() as u64) as usize];
    let b = len / a;
    let ta = Box::new(tree_of_len(a, st, depth - 1, for_field));
    let tb = Box::new(tree_of_len(b, st, depth - 1, for_field));
    let coprime = gcd(a as u64, b as u64) == 1;
    // *Small variants need small-scratch inners: leaves qualify; otherwise `build` re-checks and skips
    let small_ok = tree_depth(&ta) == 0 && tree_depth(&tb) == 0 && !matches!(*ta, Tree::Planned(..)) && !matches!(*tb, Tree::Planned(..));
    match (st.below(4), coprime, small_ok) {
        (0, true, _) => Tree::GoodThomas(ta, tb),
        (1, true, true) => Tree::GoodThomasSmall(ta, tb),
        (2, _, true) => Tree::MixedRadixSmall(ta, tb),
        _ => Tree::MixedRadix(ta, tb),
    }
}
fn leaf_for(len: usize, st: &mut Stream, for_field: bool) -> Tree {
    let c = st.below(10);
    if BUTTERFLY_LENS.contains(&len) && c < 4 {
        return Tree::Butterfly(len);
    }
    if len <= 32 && c < 7 {
        return Tree::Dft(len);
    }
    if len <= 64 || c < 8 {
        let planners: &[Planner] = if for_field { &[Planner::Auto, Planner::Scalar] } else { &PLANNERS };
        return Tree::Planned(planners[st.below(planners.len() as u64) as usize], len);
    }
    if len <= 96 {
        Tree::Dft(len)
    } else {
        Tree::Planned(Planner::Scalar, len)
    }
}

/// Large composites (beyond the enumerated and the random range): every constructor kind once or more with a composite length
/// between ~30 000 and ~300 000 (thorough: ~1 200 000) -- index widths (u16/u32), cache-blocking thresholds, layer counts and
/// table sizes only change up there. Construction inside the documented preconditions is re-checked on the built children.
pub fn large_trees(thorough: bool) -> Vec<Tree> {
    let mut v = vec![];
    let b = |t: Tree| Box::new(t);
    for k in 14..=if thorough { 20 } else { 18 } {
        v.push(Tree::Radix4(1 << k));
    }
    for e in 9..=if thorough { 12 } else { 11 } {
        v.push(Tree::Radix3(3usize.pow(e)));
    }
    let cap = if thorough { 1_200_000 } else { 300_000 };
    let leaves = [Tree::Butterfly(5), Tree::Butterfly(7), Tree::Butterfly(3), Tree::Dft(6), Tree::Butterfly(31), Tree::Planned(Planner::Scalar, 35), Tree::Butterfly(16), Tree::Dft(1), Tree::Butterfly(2)];
    for leaf in &leaves {
        let l = tree_len(leaf);
        for k in 5..=10u32 {
            let n = l << (2 * k);
            if n >= 30_000 && n <= cap {
                v.push(Tree::Radix4Base(k, b(leaf.clone())));
            }
        }
        for k in 6..=13u32 {
            let n = l * 3usize.pow(k);
            if n >= 30_000 && n <= cap {
                v.push(Tree::Radix3Base(k, b(leaf.clone())));
            }
        }
    }
    let bigs = [Tree::Radix4(256), Tree::Radix4(1024), Tree::Radix4(4096), Tree::Radix3(243), Tree::Radix3(729), Tree::Radix3(2187), Tree::Planned(Planner::Scalar, 1000), Tree::Radix4(16384)];
    let smalls = [Tree::Dft(65), Tree::Butterfly(31), Tree::Butterfly(17), Tree::Dft(257), Tree::Butterfly(32), Tree::Butterfly(27), Tree::Dft(35), Tree::Butterfly(7)];
    for a in &bigs {
        for s in &smalls {
            let (la, ls) = (tree_len(a), tree_len(s));
            let n = la * ls;
            if n < 30_000 || n > cap {
                continue;
            }
            for (x, y) in [(a, s), (s, a)] {
                v.push(Tree::MixedRadix(b(x.clone()), b(y.clone())));
                v.push(Tree::MixedRadixSmall(b(x.clone()), b(y.clone())));
                if gcd(la as u64, ls as u64) == 1 {
                    v.push(Tree::GoodThomas(b(x.clone()), b(y.clone())));
                    v.push(Tree::GoodThomasSmall(b(x.clone()), b(y.clone())));
                }
            }
        }
    }
    // Rader / Bluestein over large inner transforms
    v.push(Tree::Raders(b(Tree::Radix4(65536))));
    v.push(Tree::Raders(b(Tree::Planned(Planner::Scalar, 40960))));
    v.push(Tree::Raders(b(Tree::Radix3Base(2, b(Tree::Radix4(8192)))))); // 73728 + 1 = 73729 is prime
    v.push(Tree::Bluesteins(40009, b(Tree::Radix4(131072))));
    v.push(Tree::Bluesteins(65536, b(Tree::Radix4(131072))));
    v.push(Tree::Bluesteins(65537, b(Tree::Radix4(262144))));
    v.push(Tree::Bluesteins(32769, b(Tree::Radix4(65537usize.next_power_of_two()))));
    v.push(Tree::Bluesteins(30011, b(Tree::Radix3Base(1, b(Tree::Radix4(32768))))));
    v.retain(|t| match t {
        Tree::Raders(inner) => is_prime(tree_len(inner) as u64 + 1),
        _ => true,
    });
    v
}

/// the battery of call-level checks applied to one tree
fn battery(ctx: &mut Ctx, t: &Tree, idx: usize, is_chk: bool) {
    let n = tree_len(t);
    let src = Source::Tree(t.clone());
    let mk = |kind: &str, ty: Ty, dir: Dir| Case::new("C12", kind, Planner::Scalar, ty, dir, n).with_source(src.clone());
    for (ti, ty) in TYS.iter().enumerate() {
        let dir = DIRS[(idx + ti) % 2];
        // C01 on every entry point
        for (ei, entry) in ENTRIES.iter().enumerate() {
            let input = if ei % 2 == 0 { InputSpec::fam("uniform", idx as u64 + 1) } else { InputSpec::fam("impulse", 1 + (idx % n.max(1)) as u64) };
            ctx.exec(&mk("numeric", *ty, dir).with_entry(*entry).with_input(input));
        }
        // C03: guard pages, 2 chunks, both orientations
        for (ei, entry) in ENTRIES.iter().enumerate() {
            ctx.exec(&mk("guard", *ty, dir).with_entry(*entry).with_chunks(1 + (idx + ei) % 2).with_input(InputSpec::fam("uniform", 3)).with_p(vec![((idx + ei) % 2) as i64, 0]));
        }
        if is_chk {
            continue;
        }
        // C07
        let e = ENTRIES[idx % 4];
        ctx.exec(&mk("chunks", *ty, dir).with_entry(e).with_chunks(3).with_input(InputSpec::fam("uniform", 5)).with_p(vec![(idx % 3) as i64, 1]));
        // C08
        for (ei, entry) in EXPLICIT_ENTRIES.iter().enumerate() {
            ctx.exec(&mk("scratch", *ty, dir).with_entry(*entry).with_input(InputSpec::fam("uniform", 7)).with_p(vec![((idx + ei) % 2) as i64, 1, 1]));
        }
        // C09: a rotating slice of the shape matrix
        if n >= 1 {
            let entry = ENTRIES[(idx / 2) % 4];
            let m = shape_matrix(n, entry, false, 5);
            for j in 0..6 {
                let (d, o, s) = m[(idx * 7 + j * 5) % m.len()];
                ctx.exec(&mk("shape", *ty, dir).with_entry(entry).with_input(InputSpec::fam("uniform", 9)).with_p(vec![d as i64, o as i64, s, 0]));
            }
        }
    }
    if !is_chk {
        // exact finite-field version of the same tree (planner leaves: SIMD planners decline the field type, so only Auto/Scalar leaves are valid there)
        let mut leaves = vec![];
        planned_leaves(t, &mut leaves);
        if leaves.iter().all(|(p, _)| matches!(p, Planner::Auto | Planner::Scalar)) {
            ctx.exec(&mk("exact", Ty::F64, DIRS[idx % 2]).with_entry(ENTRIES[idx % 4]).with_input(InputSpec::fam("random-field", idx as u64)).with_p(vec![0]));
        }
    }
}

pub fn worker(ctx: &mut Ctx) {
    let (c1, c2, rmax, cases) = params(ctx.tier);
    let is_chk = crate::runner::current_variant() == "chk";
    let mut all = depth1_trees(c1);
    let d1 = all.len();
    all.extend(depth2_trees(c2));
    ctx.bump("trees enumerated (depth<=1)", 0);
    if ctx.shard == 0 {
        ctx.bump("trees enumerated (depth<=1)", d1 as u64);
        ctx.bump("trees enumerated (depth 2)", (all.len() - d1) as u64);
    }
    for (idx, t) in all.iter().enumerate() {
        if !ctx.mine() {
            continue;
        }
        if is_chk && idx % 3 != 0 {
            continue;
        }
        ctx.label(&format!("tree depth:{}", tree_depth(t)));
        ctx.label(&format!("tree root:{}", tree_name(t)));
        battery(ctx, t, idx, is_chk);
        if ctx.done() {
            return;
        }
    }
    // constructors over PLANNER-PRODUCED inner transforms of every length up to 600 (quick) / 2000 (thorough): the planners
    // return inners with all kinds of scratch needs (Bluestein bases, cached splices) that hand-written leaves never have
    {
        let top = ctx.tier.pick(600usize, 2000);
        let mut idx = 0usize;
        for m in 2..=top {
            for (pi, planner) in [Planner::Scalar, Planner::Avx, Planner::Sse].iter().enumerate() {
                idx += 1;
                if !ctx.mine() {
                    continue;
                }
                if is_chk && (m + pi) % 4 != 0 {
                    continue;
                }
                let inner = Tree::Planned(*planner, m);
                let mut trees: Vec<Tree> = vec![];
                if is_prime(m as u64 + 1) {
                    trees.push(Tree::Raders(Box::new(inner.clone())));
                }
                // one of the other wrappers, rotating
                match (m + pi) % 4 {
                    0 => trees.push(Tree::Bluesteins((m + 1) / 2, Box::new(inner.clone()))),
                    1 => trees.push(Tree::Radix4Base(1, Box::new(inner.clone()))),
                    2 => trees.push(Tree::Radix3Base(1, Box::new(inner.clone()))),
                    _ => trees.push(Tree::MixedRadix(Box::new(Tree::Butterfly([2usize, 3, 5, 7][m % 4])), Box::new(inner.clone()))),
                }
                for t in trees {
                    let n = tree_len(&t);
                    let src = Source::Tree(t.clone());
                    let ty = TYS[(m + pi) % 2];
                    let dir = DIRS[(m / 2) % 2];
                    for (ei, entry) in ENTRIES.iter().enumerate() {
                        ctx.exec(&Case::new("C12", "guard", Planner::Scalar, ty, dir, n).with_source(src.clone()).with_entry(*entry).with_chunks(1 + (m + ei) % 2).with_input(InputSpec::fam("uniform", 3)).with_p(vec![((m + ei) % 4) as i64, 1]));
                    }
                    let e = ENTRIES[(m + pi) % 4];
                    ctx.exec(&Case::new("C12", "numeric", Planner::Scalar, ty, dir, n).with_source(src.clone()).with_entry(e).with_input(InputSpec::fam("uniform", idx as u64)));
                    ctx.exec(&Case::new("C12", "numeric", Planner::Scalar, ty, dir, n).with_source(src).with_entry(Entry::Immutable).with_input(InputSpec::fam("gaussish", idx as u64)));
                }
            }
            if ctx.done() {
                return;
            }
        }
    }
    // large composites: numeric (f32, and f64 up to 2^16) on every entry point + one guard-paged call
    if !is_chk {
        for (idx, t) in large_trees(ctx.tier == Tier::Thorough).iter().enumerate() {
            if !ctx.mine() {
                continue;
            }
            let n = tree_len(t);
            let src = Source::Tree(t.clone());
            ctx.label(&format!("large tree root:{}", tree_name(t)));
            for (ei, entry) in ENTRIES.iter().enumerate() {
                let dir = DIRS[(idx + ei) % 2];
                ctx.exec(&Case::new("C12", "numeric", Planner::Scalar, Ty::F32, dir, n).with_source(src.clone()).with_entry(*entry).with_input(InputSpec::fam("uniform", idx as u64 + 11)));
                if n <= 1 << 16 && ei % 2 == 0 {
                    ctx.exec(&Case::new("C12", "numeric", Planner::Scalar, Ty::F64, dir, n).with_source(src.clone()).with_entry(*entry).with_input(InputSpec::fam("gaussish", idx as u64 + 13)));
                }
            }
            ctx.exec(&Case::new("C12", "guard", Planner::Scalar, TYS[idx % 2], DIRS[idx % 2], n).with_source(src.clone()).with_entry(ENTRIES[idx % 4]).with_input(InputSpec::fam("uniform", 3)).with_p(vec![(idx % 4) as i64, 0]));
            ctx.exec(&Case::new("C12", "scratch", Planner::Scalar, TYS[(idx + 1) % 2], DIRS[idx % 2], n).with_source(src).with_entry(EXPLICIT_ENTRIES[idx % 3]).with_input(InputSpec::fam("uniform", 7)).with_p(vec![(idx % 2) as i64, 1, 1]));
            if ctx.done() {
                return;
            }
        }
    }
    // random deeper trees: one case per tree and check kind, drawn by proptest
    const KINDS: [&str; 6] = ["numeric", "guard", "chunks", "scratch", "shape", "exact"];
    let strat = (any::<u64>(), any::<u64>(), 1..=4usize, 0..KINDS.len(), 0..2usize, 0..2usize, 0..4usize, 0..40usize).prop_map(
        move |(lr, seed, depth, kind, ty, dir, en, which)| {
            // lengths biased towards small
            let u = (lr >> 11) as f64 / (1u64 << 53) as f64;
            let len = 2 + ((u * u * u) * (rmax - 2) as f64) as usize;
            let kind = KINDS[kind];
            let mut st = Stream(seed);
            let t = tree_of_len(len, &mut st, depth, kind == "exact");
            let n = tree_len(&t);
            let entry = ENTRIES[en];
            let mut c = Case::new("C12", kind, Planner::Scalar, TYS[ty], DIRS[dir], n).with_source(Source::Tree(t)).with_entry(entry).with_input(InputSpec::fam("uniform", seed));
            match kind {
                "guard" => c = c.with_chunks(1 + which % 3).with_p(vec![(which % 2) as i64, 0]),
                "chunks" => c = c.with_chunks(2 + which % 3).with_p(vec![(which % 4) as i64, 1 + (which % 5) as i64]),
                "scratch" => {
                    c = c.with_entry(EXPLICIT_ENTRIES[en % 3]).with_p(vec![[0i64, 1, 17, -1][which % 4], 1 + (which % 4) as i64, 1])
                }
                "shape" => {
                    let m = shape_matrix(n, entry, false, 3);
                    let (d, o, s) = m[which * m.len() / 40];
                    c = c.with_p(vec![d as i64, o as i64, s, 0]);
                }
                "exact" => c = c.with_input(InputSpec::fam("random-field", seed)).with_p(vec![0]),
                _ => {}
            }
            c
        },
    );
    ctx.run_random("random-trees", cases * 6 / ctx.nshards as u32, strat);
}
