//! C04 — every planner plans every length, reporting the right length and direction
use super::Meta;
use crate::gen::Families;
use crate::runner::{Ctx, Tier};
use crate::types::*;
use proptest::prelude::*;

fn params(tier: Tier) -> (usize, usize, usize, u32) {
    // (dense bound, plan-only bound, structured bound, structured cases)
    match tier {
        Tier::Quick => (8192, 1 << 20, 1 << 19, 960),
        Tier::Thorough => (65536, 1 << 22, 1 << 21, 1600),
    }
}

pub fn meta(tier: Tier) -> Meta {
    let (dense, planonly, nmax, cases) = params(tier);
    Meta {
        rule: format!(
            "(a) every n in 0..={dense} x 4 planners x f32/f64 x 2 directions, fresh planner per request, transform constructed: no panic, len()==n, fft_direction()==requested, scratch-length queries do not panic, n=0 accepts an empty buffer on all 4 entry points, n=1 is the identity (numeric equality) on 3 random values per entry point; \
             (b) the same range with ONE planner reused over windows of 256 consecutive lengths (both fixed and alternating directions), using both plan_fft and plan_fft_forward/inverse; \
             (c) plan-only sweep of every n up to {planonly} through the plan-report hook (no construction): designing does not panic and the designed plan's length, recomputed by an independent parser of its Debug text, equals n; \
             (d) {cases} proptest-drawn structured large lengths up to {nmax} built for real. \
             Non-trivial: n >= 2; distinct = (planner,type,direction,n) or (window) tuples.",
            dense = dense, planonly = planonly, nmax = nmax, cases = cases
        ),
        exhaustive: true,
        exhaustive_note: "parts (a), (b), (c) enumerate their stated ranges completely; (d) is sampled".into(),
        assumptions: vec![
            "lengths above the stated bounds are not explored (memory)".into(),
            "(c) trusts the plan-report hook to show the plan the planner would build".into(),
        ],
    }
}

pub fn worker(ctx: &mut Ctx) {
    let (dense, planonly, nmax, cases) = params(ctx.tier);
    // (a) fresh planner per request
    for n in 0..=dense {
        for ty in TYS {
            for dir in DIRS {
                for planner in PLANNERS {
                    if ctx.mine() {
                        ctx.exec(&Case::new("C04", "plan", planner, ty, dir, n).with_input(InputSpec::fam("uniform", n as u64)));
                    }
                }
            }
        }
        if ctx.done() {
            return;
        }
    }
    // (b) windows on a reused planner
    let win = 256usize;
    let mut start = 0usize;
    while start <= dense {
        let count = win.min(dense + 1 - start);
        for ty in TYS {
            for planner in PLANNERS {
                for (dir, alt) in [(Dir::Fwd, 0), (Dir::Inv, 0), (Dir::Fwd, 1)] {
                    if ctx.mine() {
                        ctx.exec(&Case::new("C04", "planwindow", planner, ty, dir, start).with_p(vec![start as i64, count as i64, alt]));
                    }
                }
            }
        }
        start += win;
    }
    // (c) plan-only sweep
    let block = 4096usize;
    let mut start = 0usize;
    while start <= planonly {
        let count = block.min(planonly + 1 - start);
        for ty in TYS {
            for planner in PLANNERS {
                if ctx.mine() {
                    ctx.exec(&Case::new("C04", "planonly", planner, ty, Dir::Fwd, start).with_p(vec![start as i64, count as i64, 1]));
                }
            }
        }
        start += block;
    }
    // (d) structured large lengths, built for real
    let fams = Families::new(nmax);
    let nf = fams.count();
    let strat = (0..nf, any::<u64>(), 0..4usize, 0..2usize, 0..2usize).prop_map(move |(fam, r, pl, ty, dir)| {
        let (n, _) = fams.pick(fam, r);
        Case::new("C04", "plan", PLANNERS[pl], TYS[ty], DIRS[dir], n)
    });
    ctx.run_random("structured-large", cases / ctx.nshards as u32, strat);
}
