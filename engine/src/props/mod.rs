//! Per-property generators (workers), metadata and the case dispatcher.
use crate::by_ty;
use crate::checks::*;
use crate::checks2::*;
use crate::checks3::*;
use crate::checks4::*;
use crate::runner::{Ctx, Stats, Tier, WorkerSpec};
use crate::types::*;

pub mod c01;
pub mod c02;
pub mod c04;
pub mod c12;
pub mod calls;
pub mod generic;
pub mod sys;

pub struct Meta {
    pub rule: String,
    pub exhaustive: bool,
    pub exhaustive_note: String,
    pub assumptions: Vec<String>,
}

pub fn meta(prop: &str, tier: Tier) -> Meta {
    match prop {
        "C01" => c01::meta(tier),
        "C02" => c02::meta(tier),
        "C04" => c04::meta(tier),
        "C12" => c12::meta(tier),
        "C10" => sys::c10_meta(tier),
        "C11" => sys::c11_meta(tier),
        "C13" => sys::c13_meta(tier),
        "C03" => calls::c03_meta(tier),
        "C05" => generic::c05_meta(tier),
        "C14" => generic::c14_meta(tier),
        "C06" => calls::c06_meta(tier),
        "C07" => calls::c07_meta(tier),
        "C08" => calls::c08_meta(tier),
        "C09" => calls::c09_meta(tier),
        "C15" => calls::c15_meta(tier),
        _ => Meta { rule: String::new(), exhaustive: false, exhaustive_note: String::new(), assumptions: vec![] },
    }
}

pub fn worker(ctx: &mut Ctx) {
    match ctx.prop.clone().as_str() {
        "C01" => c01::worker(ctx),
        "C02" => c02::worker(ctx),
        "C04" => c04::worker(ctx),
        "C12" => c12::worker(ctx),
        "C10" => sys::c10_worker(ctx),
        "C11" => sys::c11_worker(ctx),
        "C13" => sys::c13_worker(ctx),
        "C03" => calls::c03_worker(ctx),
        "C05" => generic::c05_worker(ctx),
        "C14" => generic::c14_worker(ctx),
        "C06" => calls::c06_worker(ctx),
        "C07" => calls::c07_worker(ctx),
        "C08" => calls::c08_worker(ctx),
        "C09" => calls::c09_worker(ctx),
        "C15" => calls::c15_worker(ctx),
        other => ctx.stats.infra_errors.push(format!("no worker for property {}", other)),
    }
}

/// default: 16 shards of the `rel` build
pub fn worker_specs(prop: &str, _tier: Tier) -> Vec<WorkerSpec> {
    let n = 16;
    let mk = |v: &str, n: usize| (0..n).map(|i| WorkerSpec { variant: v.into(), mask: 0, shard: i, nshards: n }).collect::<Vec<_>>();
    match prop {
        // optimised build (real out-of-bounds accesses hit guard pages) + debug-assert build (index-level witness)
        "C03" | "C09" | "C12" => {
            let mut v = mk("rel", n);
            v.extend(mk("chk", n));
            v
        }
        // C15 additionally on the unoptimised build (what `cargo test` users run): a write through the shared input reference
        // is undefined behaviour that an optimised build may happen to delete
        "C15" => {
            let mut v = mk("rel", n);
            v.extend(mk("chk", n));
            v.extend(mk("dbg", 8));
            v
        }
        // few processes, many threads each
        "C11" => mk("rel", 2),
        // one worker process per (feature set, capability mask)
        "C13" => {
            let mut v = vec![];
            for var in sys::C13_VARIANTS {
                for m in sys::C13_MASKS {
                    v.push(WorkerSpec { variant: var.into(), mask: m, shard: 0, nshards: 1 });
                }
            }
            v
        }
        _ => mk("rel", n),
    }
}

/// parent-side work after the workers: merge the coverage-guided stage (thorough tier)
pub fn parent_extra(prop: &str, _tier: Tier, _seed: u64, stats: &mut Stats) {
    let wd = crate::runner::work_dir();
    let sum = wd.join(format!("fuzz-{}.json", prop));
    let Ok(text) = std::fs::read_to_string(&sum) else { return };
    let Ok(v) = serde_json::from_str::<serde_json::Value>(&text) else { return };
    stats.extra.insert("fuzz_stage".into(), v);
    let cases = wd.join(format!("fuzz-{}-cases.jsonl", prop));
    let Ok(lines) = std::fs::read_to_string(&cases) else { return };
    let known = crate::runner::load_known();
    for line in lines.lines() {
        let Ok(doc) = serde_json::from_str::<serde_json::Value>(line) else { continue };
        let Ok(mut case) = serde_json::from_value::<Case>(doc["case"].clone()) else { continue };
        case.prop = prop.to_string();
        let artifact = doc["artifact"].as_str().unwrap_or("").to_string();
        // confirm outside the sanitizer build: debug-assertion build first, then the optimised build
        let mut confirmed: Option<(Case, String)> = None;
        for variant in ["chk", "rel"] {
            let mut c = case.clone();
            c.variant = variant.into();
            if let Some(r) = crate::runner::run_case_subprocess(&c) {
                confirmed = Some((c, r));
                break;
            }
        }
        let (c, reason, crashed) = match confirmed {
            Some((c, r)) => {
                let (m, mr) = crate::runner::shrink(&c, &r, &mut |x| crate::runner::run_case_subprocess(x));
                (m, mr, false)
            }
            None => (
                case.clone(),
                format!("found by the libFuzzer/AddressSanitizer target only (not reproduced by the plain builds): replay with `cargo +nightly fuzz run --fuzz-dir fuzz <target> {}`", artifact),
                true,
            ),
        };
        let sig = signature(&c);
        if known.iter().any(|k| k.property == prop && k.signature == sig) {
            *stats.known_hits.entry(sig).or_default() += 1;
            continue;
        }
        stats.violations.push(crate::runner::Violation { case: c, original: case, reason, signature: sig, crashed, replay: String::new() });
    }
}

/// The call-level check a case names
pub fn run_case(case: &Case) -> Outcome {
    match case.kind.as_str() {
        "numeric" => by_ty!(case.ty, k_numeric(case)),
        "basis" => by_ty!(case.ty, k_basis(case)),
        "plan" => by_ty!(case.ty, k_plan(case)),
        "planwindow" => by_ty!(case.ty, k_planwindow(case)),
        "planonly" => by_ty!(case.ty, k_planonly(case)),
        "roundtrip" => by_ty!(case.ty, k_roundtrip(case)),
        "chunks" => by_ty!(case.ty, k_chunks(case)),
        "scratch" => by_ty!(case.ty, k_scratch(case)),
        "shape" => by_ty!(case.ty, k_shape(case)),
        "immut" => by_ty!(case.ty, k_immut(case)),
        "guard" => by_ty!(case.ty, k_guard(case)),
        "history" => by_ty!(case.ty, k_history(case)),
        "planlife" => by_ty!(case.ty, k_planlife(case)),
        "threads" => by_ty!(case.ty, k_threads(case)),
        "config" => by_ty!(case.ty, k_config(case)),
        "exact" => k_exact(case),
        "ops" => k_ops(case),
        "structure" => k_structure(case),
        "scratchlen" => k_scratchlen(case),
        "histscratch" => k_histscratch(case),
        "histops" => k_histops(case),
        "altnum" => k_altnum(case),
        other => Outcome::skip(format!("unknown case kind {}", other)),
    }
}

/// Exact signature of a failing case, used to key known findings
pub fn signature(case: &Case) -> String {
    match &case.source {
        Source::Tree(t) => format!("{}:{}:tree={}", case.kind, ty_name(case.ty), crate::trees::describe(t)),
        Source::History { reqs, pick } => format!(
            "{}:{:?}:{}:history={:?}@{}:{:?}",
            case.kind,
            case.planner,
            ty_name(case.ty),
            reqs.iter().map(|r| format!("{}{}", r.n, if r.dir == Dir::Fwd { "F" } else { "I" })).collect::<Vec<_>>(),
            pick,
            case.entry
        ),
        Source::Plan => format!(
            "{}:{:?}:{}:{:?}:n={}:{:?}:k={}:{}:m{}",
            case.kind,
            case.planner,
            ty_name(case.ty),
            case.dir,
            case.n,
            case.entry,
            case.chunks,
            case.variant,
            case.mask
        ),
    }
}
pub fn ty_name(t: Ty) -> &'static str {
    match t {
        Ty::F32 => "f32",
        Ty::F64 => "f64",
    }
}
