//! Workers of C10 (planner histories), C11 (threads), C13 (SIMD configurations)
use super::Meta;
use crate::exec::AnyPlanner;
use crate::gen::Families;
use crate::plantext;
use crate::runner::{Ctx, Tier};
use crate::types::*;
use proptest::prelude::*;

// =============================================================================================
// C10
fn c10_params(tier: Tier) -> (usize, usize, u32) {
    // (number of derived-pool targets, max target, random histories)
    match tier {
        Tier::Quick => (6, 1 << 13, 1800),
        Tier::Thorough => (90, 1 << 16, 16000),
    }
}
pub fn c10_meta(tier: Tier) -> Meta {
    let (targets, tmax, cases) = c10_params(tier);
    Meta {
        rule: format!(
            "Model-based: a history is a sequence of planning requests (length, direction) applied to ONE planner; the model says every returned transform must be a correct DFT of its own length and direction whatever came before. \
             Bounded-exhaustive: for each of {targets}+ target lengths up to {tmax} (highly composite 11-smooth lengths, p*2^k with Rader/Bluestein primes, a few fixed ones) a pool of <= 8 RELATED requests is derived from the target's own fresh plan via the plan-report hook (every stage of its AVX radix chain / every sub-recipe of its scalar or SSE recipe, Rader/Bluestein inner lengths, multiples of the target, and two opposite-direction requests), and ALL sequences of length <= 3 over the pool (quick tier: all of length <= 2 and a fixed third of those of length 3) are run on the Scalar, Sse and Avx planners, f32 and f64. \
             Pairs: every (M, p) with p prime <= 400 (quick) / 2048 (thorough) and M = 2^a*3^b in [p,12p]: the history [M, p, p'] (a cached M is a candidate Bluestein inner length when M >= 2p-1, and must NOT be taken for one when it is shorter). \
             Neighbour histories: [p-1, p], [(p-1)/2, p-1, p], [p, 2p, 2p+1], [p-1, p, 2p] for every prime p in 37..=600 (quick) / 4000 (thorough). \
             Plan lifetime: histories in which the caller DROPS every returned transform before the next request (repeats, both directions, halves/doubles/quadruples of landmark sizes from 1000 up to 5*2^18 and 2^20 (quick) / 2^23 (thorough), and a third as many random histories), each transform judged against the analytic DFT column of a unit impulse (and a dense vector up to 2^16). \
             Window-fill: proptest-drawn histories of 2-5 requests with lengths inside [p, 4p] (candidate inner lengths and lengths just too short to be one) followed by a Bluestein prime p and a multiple of it. \
             Random: {cases} proptest-drawn histories of length 1..12 over the divisor lattices of 5040*{{1,11,13,59,251}} (quick tier: divisors up to 2^16) and 2^a*3^b lengths (Bluestein inner sizes), all four planners. \
             Oracle for EVERY transform returned in a history: len()/fft_direction(); C02 bound on a dense vector and C01 tolerance on an impulse against the reference DFT, through a rotating entry point with exactly the advertised scratch (the last request of a history through ALL four entry points); C06 round trip whenever both directions of a length were returned; all of it after the planner has been dropped; and a twin planner fed the same history must return transforms with bit-identical outputs. \
             Non-trivial: the history contains a request that the planner splices onto something an earlier request built (AVX: plan shows CacheBase(b), b < n; scalar/SSE: a sub-recipe length built earlier in that direction), as reported by the plan-report hook just before the request.",
        ),
        exhaustive: true,
        exhaustive_note: "thorough: all sequences of length <= 3 over each derived pool are enumerated (quick: all of length <= 2 and a third of length 3); longer histories are sampled".into(),
        assumptions: vec!["the plan-report hook is used only to derive pools and to label cache interaction; verdicts come from the transforms' behaviour".into()],
    }
}

/// requests related to `target` through its own plan
fn derived_pool<T: Real>(planner: Planner, target: usize, dir: Dir, cap: usize) -> Vec<Req> {
    let mut lens: Vec<usize> = vec![target];
    if let Some(mut pl) = AnyPlanner::<T>::new(planner) {
        let text = pl.plan_text(target, dir);
        if let Some(info) = plantext::analyse(&text) {
            if !info.radixes.is_empty() {
                let prod: u64 = info.radixes.iter().product();
                let mut l = (target as u64 / prod.max(1)) as usize;
                lens.push(l);
                for r in &info.radixes {
                    l *= *r as usize;
                    lens.push(l);
                }
            } else {
                lens.extend(info.node_lens.iter().map(|&x| x as usize));
            }
            for (l, inner) in &info.bluestein {
                lens.push(*l as usize);
                lens.push(*inner as usize);
            }
            for r in &info.raders {
                lens.push(*r as usize);
                lens.push(*r as usize - 1);
            }
        }
    }
    lens.retain(|&l| l >= 2);
    lens.sort();
    lens.dedup();
    // keep the target, its three largest proper stages and the smallest one
    let mut keep: Vec<usize> = vec![target];
    let proper: Vec<usize> = lens.iter().copied().filter(|&l| l < target).collect();
    keep.extend(proper.iter().rev().take(3));
    if let Some(&s) = proper.first() {
        keep.push(s);
    }
    for m in [2usize, 4, 3] {
        if target * m <= cap * 4 && keep.len() < 6 {
            keep.push(target * m);
        }
    }
    keep.sort();
    keep.dedup();
    let mut reqs: Vec<Req> = keep.iter().map(|&n| Req { n, dir }).collect();
    reqs.push(Req { n: target, dir: dir.other() });
    if let Some(&s) = proper.last() {
        reqs.push(Req { n: s, dir: dir.other() });
    }
    reqs.truncate(8);
    reqs
}

pub fn c10_targets(tier: Tier) -> Vec<usize> {
    let (count, tmax, _) = c10_params(tier);
    let fams = Families::new(tmax);
    let smooth: Vec<usize> = fams.fams.iter().find(|f| f.0 == "smooth11").map(|f| f.1.clone()).unwrap_or_default();
    // 11-smooth lengths with many prime factors (long radix chains)
    let rich: Vec<usize> = smooth.into_iter().filter(|&n| n >= 500 && crate::gen::factorize(n as u64).iter().map(|f| f.1).sum::<u32>() >= 6).collect();
    let mut t: Vec<usize> = vec![];
    let step = (rich.len() / count.max(1)).max(1);
    let mut i = step / 2;
    while i < rich.len() && t.len() < count {
        t.push(rich[i]);
        i += step;
    }
    // primes (Rader / Bluestein) times powers of two, and a few fixed lengths
    t.extend([4608usize, 7560, 13500, 3780, 8748, 59 * 8, 251 * 4, 97 * 16, 1201, 2 * 1031, 83 * 6, 13 * 64, 11 * 11 * 8, 4096, 6561, 15625]);
    // lengths whose part made of primes > 7 is composite and not a product of two butterflies: the scalar/SSE planners split
    // it into cofactors that may or may not have been planned before (11*37, 11*13*17, 11*13*19, 2*11*13*19, 13*41, 3*17*37)
    t.extend([407usize, 2431, 2717, 5434, 533, 1887]);
    t.retain(|&n| n <= tmax.max(16384));
    t.sort();
    t.dedup();
    t
}

pub fn c10_worker(ctx: &mut Ctx) {
    let (_, tmax, cases) = c10_params(ctx.tier);
    let targets = c10_targets(ctx.tier);
    for (ti, &target) in targets.iter().enumerate() {
        for ty in TYS {
            for planner in [Planner::Scalar, Planner::Sse, Planner::Avx] {
                let dir = DIRS[ti % 2];
                let pool = match ty {
                    Ty::F32 => derived_pool::<f32>(planner, target, dir, tmax),
                    Ty::F64 => derived_pool::<f64>(planner, target, dir, tmax),
                };
                let k = pool.len();
                // all sequences of length 1..=3
                let mut seqs: Vec<Vec<Req>> = vec![];
                for a in 0..k {
                    seqs.push(vec![pool[a]]);
                    for b in 0..k {
                        seqs.push(vec![pool[a], pool[b]]);
                        for c in 0..k {
                            // quick tier: every sequence of length <= 2 and a fixed third of the length-3 ones
                            if ctx.tier == Tier::Quick && (a + b + c + ti) % 3 != 0 {
                                continue;
                            }
                            seqs.push(vec![pool[a], pool[b], pool[c]]);
                        }
                    }
                }
                for (si, seq) in seqs.into_iter().enumerate() {
                    if !ctx.mine() {
                        continue;
                    }
                    let len = seq.len();
                    ctx.exec(
                        &Case::new("C10", "history", planner, ty, dir, target)
                            .with_source(Source::History { reqs: seq, pick: len })
                            .with_input(InputSpec::fam("uniform", (ti * 1000 + si) as u64)),
                    );
                }
                if ctx.done() {
                    return;
                }
            }
        }
    }
    // every pair (M, p): a 2^a*3^b length M in [2p, 12p] planned before a prime p (M is a candidate Bluestein inner length), both directions
    {
        let pmax = ctx.tier.pick(400usize, 2048);
        let fams = Families::new(pmax * 12);
        let primes: Vec<usize> = fams.fams.iter().find(|f| f.0 == "prime_any").map(|f| f.1.clone()).unwrap_or_default();
        let smooth: Vec<usize> = fams.fams.iter().find(|f| f.0 == "smooth3").map(|f| f.1.clone()).unwrap_or_default();
        for &q in primes.iter().filter(|&&q| q > 32 && q <= pmax) {
            for &m in smooth.iter().filter(|&&m| m >= q && m <= 12 * q) {
                if !ctx.mine() {
                    continue;
                }
                let planner = [Planner::Scalar, Planner::Sse, Planner::Avx][(q + m) % 3];
                let ty = TYS[(q / 2 + m) % 2];
                let dir = DIRS[(q / 4) % 2];
                let reqs = vec![Req { n: m, dir }, Req { n: q, dir }, Req { n: q, dir: dir.other() }];
                ctx.exec(&Case::new("C10", "history", planner, ty, dir, q).with_source(Source::History { reqs, pick: 3 }).with_input(InputSpec::fam("uniform", (q * 31 + m) as u64)));
                // M close above the smallest admissible inner length: then multiples of p (radix steps on top of the Bluestein
                // base lend buffers to it) straight after M, on every planner
                if m >= 2 * q - 1 && m <= 3 * q {
                    for (xi, mult) in [10usize, 2, 5].iter().enumerate() {
                        let planner = [Planner::Avx, Planner::Scalar, Planner::Sse][(q + m + xi) % 3];
                        let reqs = vec![Req { n: m, dir }, Req { n: q * mult, dir }];
                        ctx.exec(&Case::new("C10", "history", planner, TYS[(q + xi) % 2], dir, q * mult).with_source(Source::History { reqs, pick: 2 }).with_input(InputSpec::fam("uniform", (q * 17 + m + xi) as u64)));
                    }
                }
            }
            if ctx.done() {
                return;
            }
        }
    }
    // neighbour histories: lengths that share NO factor but are related through Rader (p-1) and Bluestein/Cunningham steps:
    // [p-1, p], [(p-1)/2, p-1, p], [p, 2p, 2p+1], [p-1, p, 2p] for every prime p up to 600 (quick) / 4000 (thorough)
    {
        let pmax = ctx.tier.pick(600usize, 4000);
        for q in 37..=pmax {
            if !crate::gen::is_prime(q as u64) {
                continue;
            }
            if !ctx.mine() {
                continue;
            }
            let dir = DIRS[(q / 2) % 2];
            let seqs: [Vec<usize>; 4] = [vec![q - 1, q], vec![(q - 1) / 2, q - 1, q], vec![q, 2 * q, 2 * q + 1], vec![q - 1, q, 2 * q]];
            for (si, seq) in seqs.iter().enumerate() {
                let planner = [Planner::Scalar, Planner::Sse, Planner::Avx][(q + si) % 3];
                let ty = TYS[(q / 4 + si) % 2];
                let reqs: Vec<Req> = seq.iter().map(|&n| Req { n, dir }).collect();
                let len = reqs.len();
                ctx.exec(&Case::new("C10", "history", planner, ty, dir, q).with_source(Source::History { reqs, pick: len }).with_input(InputSpec::fam("uniform", (q * 13 + si) as u64)));
            }
            if ctx.done() {
                return;
            }
        }
    }
    // caller drops every transform before the next request ("planlife"): repeats and radix-chain neighbours of landmark sizes
    // up to 2^21 (quick) / 2^23 (thorough), where a cache that only borrows what callers keep alive would lose its entries
    {
        let mut marks: Vec<usize> = vec![1000, 4096, 7 * 512, 59 * 16, 65536, 3 * 32768, 5 << 14, 131072, 100003, 5 << 18, 1 << 20];
        if ctx.tier == Tier::Thorough {
            marks.extend([(1usize << 20) + 7, 3 << 19, 1 << 21, 5 << 19, 1 << 22, 3 << 21, 1 << 23, 7 << 18, 1048583 * 2]);
        }
        for (mi, &l) in marks.iter().enumerate() {
            for planner in [Planner::Scalar, Planner::Sse, Planner::Avx] {
                if !ctx.mine() {
                    continue;
                }
                // scalar/SSE planning of multi-million lengths is slow; keep them to the smaller marks
                if planner != Planner::Avx && l > ctx.tier.pick(1usize << 18, 1 << 21) {
                    continue;
                }
                let ty = if l > 1 << 21 { Ty::F32 } else { TYS[(mi + planner as usize) % 2] };
                let d = DIRS[mi % 2];
                let hs: [Vec<Req>; 3] = [
                    vec![Req { n: l, dir: d }, Req { n: l, dir: d }, Req { n: l, dir: d.other() }, Req { n: l, dir: d }],
                    vec![Req { n: l, dir: d }, Req { n: 2 * l, dir: d }, Req { n: l / 2, dir: d }, Req { n: l, dir: d }],
                    vec![Req { n: l / 4, dir: d }, Req { n: l, dir: d }, Req { n: 4 * l, dir: d }, Req { n: l, dir: d }],
                ];
                for (hi, reqs) in hs.iter().enumerate() {
                    if reqs.iter().any(|r| r.n > ctx.tier.pick(1usize << 22, 1 << 24)) {
                        continue;
                    }
                    let len = reqs.len();
                    ctx.exec(&Case::new("C10", "planlife", planner, ty, d, l).with_source(Source::History { reqs: reqs.clone(), pick: len }).with_input(InputSpec::fam("uniform", (mi * 3 + hi) as u64)));
                }
            }
            if ctx.done() {
                return;
            }
        }
    }
    // random histories over divisor lattices
    let mut lattice: Vec<Vec<usize>> = vec![];
    for q in [1usize, 11, 13, 59, 251] {
        let n = 5040 * q;
        // quick tier: divisors up to 2^16 (a history of several million-point requests costs minutes of reference DFTs)
        let dcap = ctx.tier.pick(1usize << 16, n);
        let mut d: Vec<usize> = (2..=n.min(dcap)).filter(|x| n % x == 0).collect();
        d.sort();
        lattice.push(d);
    }
    let mut pw: Vec<usize> = vec![];
    let mut a = 1usize;
    while a <= 1 << 14 {
        let mut b = a;
        while b <= 1 << 14 {
            if b >= 4 {
                pw.push(b);
            }
            b *= 3;
        }
        a *= 2;
    }
    pw.sort();
    lattice.push(pw);
    let nl = lattice.len();
    let strat = (0..nl, 0..4usize, 0..2usize, proptest::collection::vec((any::<u16>(), 0..2usize), 1..=12), any::<u64>()).prop_map(move |(li, pl, ty, ops, seed)| {
        let lat = &lattice[li];
        // monotone index map so that shrinking moves towards small lengths
        let reqs: Vec<Req> = ops.iter().map(|(r, d)| Req { n: lat[(*r as usize * lat.len()) >> 16], dir: DIRS[*d] }).collect();
        let len = reqs.len();
        let n = reqs.last().unwrap().n;
        Case::new("C10", "history", PLANNERS[pl], TYS[ty], Dir::Fwd, n).with_source(Source::History { reqs, pick: len }).with_input(InputSpec::fam("uniform", seed))
    });
    ctx.run_random("random-histories", cases / ctx.nshards as u32, strat.clone());
    // the same kind of histories with every transform dropped by the caller before the next request
    let strat_drop = strat.prop_map(|mut c| {
        c.kind = "planlife".into();
        c
    });
    ctx.run_random("random-histories-dropped", cases / 3 / ctx.nshards as u32, strat_drop);
    // window-fill histories: several earlier requests whose lengths are all CANDIDATE inner lengths of a later Bluestein
    // request (any length in [2p-1, 4p]), then the prime itself and a multiple; the twin-planner comparison inside the
    // oracle makes any dependence on per-instance state (e.g. hash-map iteration order) visible
    let fams = Families::new(2048);
    let blue: Vec<usize> = fams.fams.iter().find(|f| f.0 == "prime_bluestein").map(|f| f.1.clone()).unwrap_or_default();
    let nb = blue.len().max(1);
    let strat2 = (0..nb, proptest::collection::vec(any::<u16>(), 2..=5), 0..4usize, 0..2usize, 0..2usize, prop_oneof![3 => 1..=4usize, 1 => Just(10usize), 1 => Just(6usize), 1 => Just(5usize)], any::<u64>()).prop_map(move |(bi, fills, pl, ty, dir, mult, seed)| {
        let p = blue[bi % blue.len()];
        let lo = p;
        let span = 3 * p + 2;
        let d = DIRS[dir];
        let mut reqs: Vec<Req> = fills.iter().map(|f| Req { n: lo + (*f as usize * span >> 16), dir: d }).collect();
        reqs.push(Req { n: p, dir: d });
        reqs.push(Req { n: p * mult, dir: d });
        let len = reqs.len();
        Case::new("C10", "history", PLANNERS[pl], TYS[ty], d, p).with_source(Source::History { reqs, pick: len }).with_input(InputSpec::fam("uniform", seed))
    });
    ctx.run_random("window-fill-histories", cases / 2 / ctx.nshards as u32, strat2);
}

// =============================================================================================
// C11
fn c11_params(tier: Tier) -> (usize, usize) {
    // (threads, rounds per thread)
    match tier {
        Tier::Quick => (16, 400),
        Tier::Thorough => (16, 2000),
    }
}
pub fn c11_meta(tier: Tier) -> Meta {
    let (threads, rounds) = c11_params(tier);
    Meta {
        rule: format!(
            "For each sampled transform (Scalar/Sse/Avx/Auto planners x f32/f64 x ~30 lengths covering butterflies, radix chains, Rader, Bluestein, Good-Thomas, row remainders 1-3, both directions) a work list of 6 items (input family, entry point, 1-3 chunks; magnitudes from ordinary down to the bottom of the normal range and into subnormals) is first evaluated by ISOLATED calls (one fresh thread per item, a single call); then (i) the items are replayed twice interleaved on one thread (call-history determinism), and (ii) {threads} threads share the one Arc<dyn Fft> and each performs {rounds} calls in a seed-permuted order with seed-derived yields, every thread working in its own sub-slice of ONE shared allocation so that different threads' buffers are adjacent in memory; every output must be bit-identical to the isolated call. Compile-time obligations (Send + Sync for the four planners, Arc<dyn Fft<T>> and every public algorithm/butterfly type, generic in T: FftNum) are part of the harness build. \
             Non-trivial: >= 2 threads passed the start barrier on the same instance; distinct = (planner,type,direction,n,seed).",
        ),
        exhaustive: false,
        exhaustive_note: String::new(),
        assumptions: vec![
            "this family does not own the scheduler: interleavings are explored by brute force only, so a race needing a rare interleaving can survive".into(),
            "thorough tier additionally repeats with many more rounds; a ThreadSanitizer build is not part of the registered commands".into(),
        ],
    }
}
pub fn c11_worker(ctx: &mut Ctx) {
    let (threads, rounds) = c11_params(ctx.tier);
    let lens: [usize; 30] = [2, 3, 4, 7, 8, 16, 27, 31, 32, 35, 59, 63, 64, 83, 97, 107, 128, 135, 251, 256, 320, 512, 960, 1024, 1201, 2048, 4096, 5183, 6561, 10007];
    for (li, &n) in lens.iter().enumerate() {
        for ty in TYS {
            for planner in PLANNERS {
                if !ctx.mine() {
                    continue;
                }
                let dir = DIRS[(li + planner as usize) % 2];
                let r = if n > 4000 { rounds / 4 + 1 } else { rounds };
                ctx.exec(&Case::new("C11", "threads", planner, ty, dir, n).with_input(InputSpec::fam("mixed", ctx.seed ^ (n as u64))).with_p(vec![threads as i64, r as i64]));
                if ctx.done() {
                    return;
                }
            }
        }
    }
}

// =============================================================================================
// C13
pub const C13_MASKS: [u32; 7] = [0, 4, 7, 15, 2, 1, 8];
pub const C13_VARIANTS: [&str; 4] = ["rel", "f-sse", "f-avx", "f-none"];

pub fn c13_meta(tier: Tier) -> Meta {
    let (dense, plan_to, structured) = c13_params(tier);
    Meta {
        rule: format!(
            "Configurations = cargo feature sets {{default(avx+sse), sse only, avx only, none}} (four separately compiled harness binaries) x run-time capability masks {{none, -avx2, -avx-fma-avx2, -everything, -fma, -avx, -sse4.1}} (cfg-guarded mask of the feature-detection results; set once per worker process) x f32/f64 = 56 (configuration, type) pairs. In each: FftPlanner::new() must construct and (via the hook) have chosen the planner the documented fallback chain AVX(+FMA) -> SSE4.1 -> scalar prescribes; FftPlannerAvx::new() is Ok exactly when avx is compiled in and avx+fma are visible, FftPlannerSse::new() exactly when sse is compiled in and sse4.1 is visible, and neither panics; then on the automatic planner (and on each dedicated planner that constructs): C04 for every n in 0..={plan_to}, C01/C02 numeric check (bound B itself) for every n in 1..={dense} and {structured} structured lengths (incl. AVX Rader primes, which fall back to the portable Rader inside AVX plans when avx2 is hidden), and C03 guard-paged calls on the same lengths. \
             Non-trivial: every configuration other than (default features, no mask) and n >= 2.",
        ),
        exhaustive: true,
        exhaustive_note: "the configuration matrix (4 feature sets x 7 masks x 2 types) is enumerated completely".into(),
        assumptions: vec!["a mask changes what the planners DECIDE, not what the silicon executes: lower capability levels are emulated decisions".into()],
    }
}
fn c13_params(tier: Tier) -> (usize, usize, usize) {
    match tier {
        Tier::Quick => (256, 1024, 200),
        Tier::Thorough => (1024, 8192, 1200),
    }
}
pub fn c13_worker(ctx: &mut Ctx) {
    let (dense, plan_to, structured) = c13_params(ctx.tier);
    for ty in TYS {
        ctx.exec(&Case::new("C13", "config", Planner::Auto, ty, Dir::Fwd, 0));
    }
    let planners = [Planner::Auto, Planner::Sse, Planner::Avx];
    for n in 0..=plan_to {
        for ty in TYS {
            for planner in planners {
                if ctx.mine() {
                    ctx.exec(&Case::new("C13", "plan", planner, ty, DIRS[n % 2], n).with_input(InputSpec::fam("uniform", n as u64)));
                }
            }
        }
        if ctx.done() {
            return;
        }
    }
    let fams = Families::new(1 << 13);
    let mut lens: Vec<usize> = (1..=dense).collect();
    let nf = fams.count();
    let mut st = crate::gen::Stream(ctx.seed ^ 0xc13);
    for i in 0..structured {
        lens.push(fams.pick(i % nf, st.next()).0);
    }
    // landmark lengths (digit-reversal depth, index width): the portable / SSE code paths are only reachable on this CPU
    // through the masked and feature-reduced configurations, so they get their large lengths here
    lens.extend([1usize << 14, 3 << 12, 1 << 15, 3 << 14, 1 << 16, 65539, 5 << 13]);
    for (i, &n) in lens.iter().enumerate() {
        for ty in TYS {
            if !ctx.mine() {
                continue;
            }
            for planner in planners {
                let dir = DIRS[(i + planner as usize) % 2];
                let entry = ENTRIES[(i + planner as usize) % 4];
                ctx.exec(&Case::new("C13", "numeric", planner, ty, dir, n).with_entry(entry).with_input(InputSpec::fam(if i % 3 == 0 { "gaussish" } else { "uniform" }, n as u64)).with_p(vec![1]));
                ctx.exec(
                    &Case::new("C13", "guard", planner, ty, dir, n)
                        .with_entry(ENTRIES[(i + 1 + planner as usize) % 4])
                        .with_chunks(1 + i % 4)
                        .with_input(InputSpec::fam("uniform", n as u64))
                        .with_p(vec![(i % 2) as i64, 0]),
                );
            }
        }
        if ctx.done() {
            return;
        }
    }
}
