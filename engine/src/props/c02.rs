//! C02 — rounding error at most 16*eps*log2(2n)
use super::Meta;
use crate::gen::Families;
use crate::runner::{Ctx, Tier};
use crate::types::*;
use proptest::prelude::*;

fn params(tier: Tier) -> (usize, usize, usize, u32) {
    // (basis bound, dense bound, structured nmax, structured cases)
    match tier {
        Tier::Quick => (64, 1024, 1 << 15, 4800),
        Tier::Thorough => (64, 4096, 1 << 20, 9600),
    }
}

pub fn meta(tier: Tier) -> Meta {
    let (nb, dense, nmax, cases) = params(tier);
    Meta {
        rule: format!(
            "relL2(output, exact DFT) <= B = 16*eps*log2(2n), exactly the stated bound (factor 1). Exact DFT = independent reference in f64 (for f32 results) or double-double (for f64 results). \
             (a) whole impulse basis for n <= {nb}; (b) every n in 2..={dense} x 4 planners x f32/f64 x 2 directions x 4 entry points with three dense random distributions (sign-symmetric uniform, positive uniform, sum of uniforms) and one rotating structured family (constant, on-grid tone, off-grid tone, alternating signs, sparse spikes, wide dynamic range, conjugate-symmetric, ramp, large/small global scale, and a dense vector times an exact power of two at the two ENDS of the normal range: 2^-60..2^-80 (f32) / 2^-300..2^-900 (f64), and 2^(MAX_EXP-24-1.5*log2 n), judged after exact rescaling); \
             (c) {cases} proptest-drawn cases over length families up to {nmax} weighted towards Bluestein primes, Rader primes, Cunningham primes, prime powers and long radix chains (that is where eps*n or eps*sqrt(n) growth separates from the bound), all 18 input families, 1-3 chunks, plus a third as many cases with the extreme-scale inputs; (d) mean-dominated inputs (generic constant / positive uniform) through every entry point on every Rader prime above 1024 up to 2^16 (quick) / 2^19 (thorough), an even spread of 150/600 Bluestein primes and the landmark lengths; thorough adds primes near 10^6. \
             The worst observed ratio error/B per planner and type is reported. Non-trivial: n >= 2 and a non-zero input.",
        ),
        exhaustive: false,
        exhaustive_note: "dense range enumerated completely per configuration; inputs sampled".into(),
        assumptions: vec![
            "inputs are finite, with n*max|x| below MAX/2^8 and magnitudes far above the subnormal range ('finite, normal range')".into(),
            "reference FFT validated at start-up against a naive double-double DFT".into(),
        ],
    }
}

const ROT: [&str; 14] = ["const", "tone", "tone_off", "xscale_tiny", "alt", "spikes", "wide", "conjsym", "xscale_huge", "ramp", "scaled_big", "scaled_small", "real", "imag"];

pub fn worker(ctx: &mut Ctx) {
    let (nb, dense, nmax, cases) = params(ctx.tier);
    for n in 1..=nb {
        for ty in TYS {
            for dir in DIRS {
                for planner in PLANNERS {
                    if ctx.mine() {
                        ctx.exec(&Case::new("C02", "basis", planner, ty, dir, n).with_entry(ENTRIES[(n + planner as usize) % 4]).with_input(InputSpec::fam("whole-basis", 0)));
                    }
                }
            }
        }
    }
    for n in (2..=dense).rev() {
        for ty in TYS {
            for dir in DIRS {
                if !ctx.mine() {
                    continue;
                }
                let inputs = [
                    InputSpec::fam("uniform", n as u64 * 3),
                    InputSpec::fam(if n % 2 == 0 { "positive" } else { "gaussish" }, n as u64 * 3 + 1),
                    InputSpec::fam(ROT[n % ROT.len()], n as u64 * 3 + 2),
                ];
                for (ii, input) in inputs.iter().enumerate() {
                    for (pi, planner) in PLANNERS.iter().enumerate() {
                        // two of the four entry points per (input, planner), rotating: all four are covered over any 2 consecutive n
                        for e in 0..2 {
                            let entry = ENTRIES[(n + ii + pi + 2 * e) % 4];
                            ctx.exec(&Case::new("C02", "numeric", *planner, ty, dir, n).with_entry(entry).with_input(input.clone()));
                        }
                    }
                }
            }
        }
        if ctx.done() {
            return;
        }
    }
    let fams = Families::new(nmax);
    let nf = fams.count();
    // weights towards the first families (primes) by drawing the family index from a squared distribution
    let strat = (
        any::<u64>(),
        any::<u64>(),
        0..4usize,
        0..2usize,
        0..2usize,
        0..4usize,
        0..crate::gen::INPUT_FAMILIES.len(),
        any::<u64>(),
        prop_oneof![6 => Just(1usize), 1 => Just(2usize), 1 => Just(3usize)],
    )
        .prop_map(move |(fr, r, pl, ty, dir, en, inf, seed, chunks)| {
            let u = (fr >> 11) as f64 / (1u64 << 53) as f64;
            let fam = ((u * u) * nf as f64) as usize;
            let (n, _) = fams.pick_biased(fam, r);
            let chunks = if n > 1 << 15 { 1 } else { chunks };
            Case::new("C02", "numeric", PLANNERS[pl], TYS[ty], DIRS[dir], n)
                .with_entry(ENTRIES[en])
                .with_chunks(chunks)
                .with_input(InputSpec::fam(crate::gen::INPUT_FAMILIES[inf], seed))
        });
    ctx.run_random("structured", cases / ctx.nshards as u32, strat);
    // the same length families with inputs at the two ends of the normal range (dense vector times an exact power of two)
    let fams2 = Families::new(nmax);
    let strat2 = (any::<u64>(), any::<u64>(), 0..4usize, 0..2usize, 0..2usize, 0..4usize, 0..2usize, any::<u64>(), 1..=2usize).prop_map(move |(fr, r, pl, ty, dir, en, which, seed, chunks)| {
        let u = (fr >> 11) as f64 / (1u64 << 53) as f64;
        let fam = ((u * u) * nf as f64) as usize;
        let (n, _) = fams2.pick_biased(fam, r);
        let chunks = if n > 1 << 14 { 1 } else { chunks };
        Case::new("C02", "numeric", PLANNERS[pl], TYS[ty], DIRS[dir], n)
            .with_entry(ENTRIES[en])
            .with_chunks(chunks)
            .with_input(InputSpec::fam(["xscale_tiny", "xscale_huge"][which], seed))
    });
    ctx.run_random("structured-extreme-scale", cases / 3 / ctx.nshards as u32, strat2);
    // mean-dominated inputs (generic constant, positive uniform, constant + small noise) on large primes and landmark lengths,
    // every entry point: bin 0 is a sum of n like-signed terms, so a running sum instead of a tree shows as eps*n only here
    {
        let bound = ctx.tier.pick(1usize << 16, 1 << 19);
        let fams = Families::new(bound);
        let mut lens: Vec<usize> = vec![];
        for fname in ["prime_rader_23smooth", "prime_rader_11smooth"] {
            lens.extend(fams.fams.iter().find(|f| f.0 == fname).map(|f| f.1.clone()).unwrap_or_default().into_iter().filter(|&q| q > 1024));
        }
        // Bluestein primes: an even spread
        let blue: Vec<usize> = fams.fams.iter().find(|f| f.0 == "prime_bluestein").map(|f| f.1.clone()).unwrap_or_default().into_iter().filter(|&q| q > 1024).collect();
        let step = (blue.len() / ctx.tier.pick(150usize, 600)).max(1);
        lens.extend(blue.iter().step_by(step));
        lens.extend(crate::gen::landmark_lengths(ctx.tier.pick(16u32, 19), false).into_iter().filter(|&n| n <= bound));
        lens.sort();
        lens.dedup();
        for (i, &n) in lens.iter().enumerate().rev() {
            if !ctx.mine() {
                continue;
            }
            // thin the quick tier: every prime family member above 2^13, every third below
            if ctx.tier == Tier::Quick && n < 1 << 13 && i % 3 != 0 {
                continue;
            }
            let fam = ["const", "positive", "const"][i % 3];
            let ty = if n > 1 << 15 { Ty::F32 } else { TYS[i % 2] };
            for (pi, planner) in [Planner::Scalar, Planner::Sse, Planner::Avx].iter().enumerate() {
                for entry in ENTRIES {
                    // all four entry points on the non-AVX planners (they share the portable algorithms), two on AVX
                    if *planner == Planner::Avx && (entry as usize + i) % 2 == 0 {
                        continue;
                    }
                    ctx.exec(&Case::new("C02", "numeric", *planner, ty, DIRS[(i + pi) % 2], n).with_entry(entry).with_input(InputSpec::fam(fam, n as u64 * 7 + 3)));
                }
            }
            if ctx.done() {
                return;
            }
        }
    }
    if ctx.tier == Tier::Thorough {
        // primes near 10^6 (Rader and Bluestein), f32 and f64
        let big = [999_983usize, 1_000_003, 1_000_033, 786_433, 995_329, 1_048_573];
        for (i, &q) in big.iter().enumerate() {
            for ty in TYS {
                for planner in [Planner::Scalar, Planner::Sse, Planner::Avx] {
                    if ctx.mine() {
                        ctx.exec(&Case::new("C02", "numeric", planner, ty, DIRS[i % 2], q).with_entry(ENTRIES[i % 4]).with_input(InputSpec::fam("uniform", q as u64)));
                    }
                }
            }
        }
    }
}
