//! Workers of the call-level properties: C03 (memory safety), C06 (round trip), C07 (chunks),
//! C08 (scratch), C09 (call shapes), C15 (immutable input).
use super::Meta;
use crate::gen::Families;
use crate::runner::{Ctx, Tier};
use crate::types::*;
use proptest::prelude::*;

fn basic(rule: String, exhaustive_note: &str, assumptions: &[&str]) -> Meta {
    Meta { rule, exhaustive: false, exhaustive_note: exhaustive_note.to_string(), assumptions: assumptions.iter().map(|s| s.to_string()).collect() }
}

/// the call-shape matrix of one transform/entry point: (data_len, out_len, scratch code)
pub fn shape_matrix(n: usize, entry: Entry, full: bool, kbig: usize) -> Vec<(usize, usize, i64)> {
    let mut data: Vec<usize> = vec![1, n.saturating_sub(1), n, n + 1, (2 * n).saturating_sub(1), 2 * n, 2 * n + 1, (kbig * n).saturating_sub(1), kbig * n, kbig * n + 1, 3 * n];
    data.retain(|&d| d > 0);
    data.sort();
    data.dedup();
    let two = matches!(entry, Entry::Outofplace | Entry::Immutable);
    let outs = |d: usize| -> Vec<usize> {
        if !two {
            return vec![0];
        }
        // equal, off by one, off by n, and off by 2n / 4n (a two-chunks-at-a-time loop sees lengths modulo 2n)
        let mut o = vec![d, d + 1, d.saturating_sub(1), d + n, d.saturating_sub(n), d + 2 * n, d.saturating_sub(2 * n), d + 4 * n];
        o.sort();
        o.dedup();
        o
    };
    let scr: Vec<i64> = if entry == Entry::Process { vec![2] } else { vec![0, 1, 2, 3] };
    let mut v = vec![];
    if full {
        for &d in &data {
            for o in outs(d) {
                for &s in &scr {
                    v.push((d, o, s));
                }
            }
        }
    } else {
        for &d in &data {
            v.push((d, d, 2));
        }
        for &d in &[n, 2 * n, kbig * n] {
            for o in outs(d) {
                v.push((d, o, 2));
            }
            for &s in &scr {
                v.push((d, d, s));
            }
        }
        // a few doubly ill-shaped
        v.push((n + 1, n, 0));
        v.push((2 * n - 1, 2 * n, 1));
        v.sort();
        v.dedup();
        v.retain(|x| x.0 > 0);
    }
    v
}

// =============================================================================================
// C09

fn c09_params(tier: Tier) -> (usize, usize, usize, u32) {
    // (full-matrix bound, reduced-matrix dense bound, structured nmax, structured transforms)
    match tier {
        Tier::Quick => (48, 256, 1 << 13, 320),
        Tier::Thorough => (128, 1024, 1 << 17, 1600),
    }
}
pub fn c09_meta(tier: Tier) -> Meta {
    let (full, dense, nmax, cases) = c09_params(tier);
    basic(
        format!(
            "For each transform (4 planners x f32/f64 x 2 directions; n in 1..={full} with the FULL product matrix, n up to {dense} with the one-dimension-at-a-time matrix, {cases} proptest-drawn structured lengths up to {nmax}) and each entry point: data length in {{1,n-1,n,n+1,2n-1,2n,2n+1,3n,kn-1,kn,kn+1}} (k=5 or 8), output length in {{equal,+-1,+-n,+-2n,+4n}}, scratch in {{0,adv-1,adv,adv+1}}. \
             Expected verdict computed from the property text alone: well-shaped iff data is a positive multiple of n, lengths agree, scratch >= advertised. Oracle: catch_unwind; well-shaped => no panic and every chunk equals its single-chunk transform within 2.5*B; ill-shaped => a panic (any text; whether it is one of the documented texts is tallied), never a normal return. \
             All caller buffers are guard-paged (output/scratch NaN-filled) and the matrix is run on the optimised build and on the build with debug assertions + overflow checks. n=0 and empty data are outside the property's wording and are not judged. \
             Non-trivial: ill-shaped, or well-shaped with >= 2 chunks."
        ),
        "the shape matrix per transform is enumerated completely for n <= the full-matrix bound",
        &["the advertised scratch lengths are read from the transform itself (get_*_scratch_len)"],
    )
}
pub fn c09_worker(ctx: &mut Ctx) {
    let (full, dense, nmax, cases) = c09_params(ctx.tier);
    let is_chk = crate::runner::current_variant() == "chk";
    // the debug-assert build runs a thinned version (every 3rd length) of the same enumeration
    let step = if is_chk { 3 } else { 1 };
    let mut n = 1;
    while n <= dense {
        for ty in TYS {
            for dir in DIRS {
                for planner in PLANNERS {
                    if !ctx.mine() {
                        continue;
                    }
                    for entry in ENTRIES {
                        let kbig = if n % 2 == 0 { 5 } else { 8 };
                        for (d, o, s) in shape_matrix(n, entry, n <= full, kbig) {
                            if d > 1 << 16 {
                                continue;
                            }
                            ctx.exec(
                                &Case::new("C09", "shape", planner, ty, dir, n)
                                    .with_entry(entry)
                                    .with_input(InputSpec::fam("uniform", (n * 7 + d) as u64))
                                    .with_p(vec![d as i64, o as i64, s, 0]),
                            );
                        }
                    }
                }
            }
        }
        if ctx.done() {
            return;
        }
        n += step;
    }
    let fams = Families::new(nmax);
    let nf = fams.count();
    let strat = (0..nf, any::<u64>(), 0..4usize, 0..2usize, 0..2usize, 0..4usize, 0..40usize, any::<u64>()).prop_map(
        move |(fam, r, pl, ty, dir, en, which, seed)| {
            let (n, _) = fams.pick_biased(fam, r);
            let kbig = if n > 4096 { 3 } else { 5 };
            let m = shape_matrix(n, ENTRIES[en], false, kbig);
            let (d, o, s) = m[which * m.len() / 40];
            Case::new("C09", "shape", PLANNERS[pl], TYS[ty], DIRS[dir], n)
                .with_entry(ENTRIES[en])
                .with_input(InputSpec::fam("uniform", seed))
                .with_p(vec![d as i64, o as i64, s, (seed % 2) as i64])
        },
    );
    ctx.run_random("structured-shapes", (cases * 8) / ctx.nshards as u32, strat);
}

// =============================================================================================
// C03

fn c03_params(tier: Tier) -> (usize, usize, u32) {
    match tier {
        Tier::Quick => (1024, 1 << 15, 4000),
        Tier::Thorough => (4096, 1 << 19, 16000),
    }
}
pub fn c03_meta(tier: Tier) -> Meta {
    let (dense, nmax, cases) = c03_params(tier);
    basic(
        format!(
            "Well-shaped calls: every n in 0..={dense} x 4 planners x f32/f64 x 2 directions x 4 entry points x chunk counts cycling through 1..8, plus {cases} proptest-drawn structured lengths up to {nmax} (every AVX radix x every row residue mod 4, Rader/Bluestein primes, prime powers, smooth numbers ...) x chunks 1..8, plus EVERY prime with 11-smooth p-1 (AVX2 Rader) and with 23-smooth p-1 (portable Rader) up to 2^19 / 2^21 (AVX) and 2^17 / 2^19 (portable), plus ~70 landmark lengths up to 2^18 (and 5*2^19, 3^12, 5^8, 262501, 2^20) / ~110 up to 2^22 (powers of two, 3*2^k, 5*2^k, large prime powers, primes next to powers of two, radix-N lengths with many layers, multi-million semiprimes). Every caller-visible buffer (data, output, scratch of EXACTLY the advertised length) lives in its own mmap'ed region flush against a PROT_NONE guard page (end-flush orientation, and start-flush orientation for a second pass), so a one-element over-read or over-write in the optimised build is a SIGSEGV in the worker, which the parent turns into a violation with a shrunk replay; a third pass places every buffer HALF an element off a page boundary (the weakest alignment a safe caller may pass: 4 bytes for Complex<f32>, 8 for Complex<f64>), so an alignment-assuming SIMD load/store faults. \
             Ill-shaped calls: the C09 shape matrix for n <= 64 and sampled lengths, same guard-paged buffers; must end in a panic, never a fault. \
             The same cases also run on a build with debug assertions and overflow checks, where rustfft's 28 bounds debug_assert!s in its unsafe accessors turn an index error into a panic that is classified as an out-of-bounds witness. \
             Transforms assembled from public constructors are covered by C12 with the same check. Thorough adds libFuzzer targets under AddressSanitizer (see fuzz/). \
             Non-trivial: n >= 2 and (chunks >= 2 or scratch > 0 or a SIMD row remainder != 0), or any ill-shaped call."
        ),
        "dense range enumerated completely; structured part sampled",
        &[
            "guard pages see accesses past the flush end of a buffer (both orientations are used); the instance's own tables and process()'s internal Vec are covered only by the debug-assert build and the ASan fuzz targets",
            "undefined behaviour that is not an address error (aliasing, invalid values) is out of reach",
        ],
    )
}
pub fn c03_worker(ctx: &mut Ctx) {
    let (dense, nmax, cases) = c03_params(ctx.tier);
    let is_chk = crate::runner::current_variant() == "chk";
    for n in 0..=dense {
        for ty in TYS {
            for dir in DIRS {
                for planner in PLANNERS {
                    if !ctx.mine() {
                        continue;
                    }
                    for (ei, entry) in ENTRIES.iter().enumerate() {
                        // chunk counts cycle so that every (n mod 8, entry) combination sees all of 1..8 over the sweep
                        let k = 1 + (n + 3 * ei + if dir == Dir::Inv { 4 } else { 0 }) % 8;
                        let k = if n * k > 1 << 15 { 1 } else { k };
                        // both guard-flush placements, plus one of the two half-element-misaligned placements
                        for flush in [0i64, 1, 2 + ((n / 8 + ei) % 2) as i64] {
                            ctx.exec(
                                &Case::new("C03", "guard", planner, ty, dir, n)
                                    .with_entry(*entry)
                                    .with_chunks(k)
                                    .with_input(InputSpec::fam("uniform", n as u64))
                                    .with_p(vec![flush, 0]),
                            );
                        }
                        // the same transform obtained from a planner with a minimal history (opposite direction first)
                        if (n + ei) % 4 == 2 && planner != Planner::Auto && n >= 2 {
                            ctx.exec(
                                &Case::new("C03", "guard", planner, ty, dir, n)
                                    .with_entry(*entry)
                                    .with_chunks(k)
                                    .with_source(Source::History { reqs: vec![Req { n, dir: dir.other() }, Req { n, dir }], pick: 1 })
                                    .with_input(InputSpec::fam("uniform", n as u64))
                                    .with_p(vec![(n / 4 % 4) as i64, 0]),
                            );
                        }
                        // single chunk as well (the unroll-by-2 paths differ)
                        if k != 1 {
                            ctx.exec(
                                &Case::new("C03", "guard", planner, ty, dir, n).with_entry(*entry).with_input(InputSpec::fam("uniform", n as u64)).with_p(vec![0, 0]),
                            );
                        }
                    }
                    // ill-shaped variants
                    if n >= 1 && (n <= 64 || n % 37 == 0) && !is_chk || is_chk && n >= 1 && n <= 40 {
                        for entry in ENTRIES {
                            for (d, o, s) in shape_matrix(n, entry, false, 5) {
                                ctx.exec(
                                    &Case::new("C03", "shape", planner, ty, dir, n)
                                        .with_entry(entry)
                                        .with_input(InputSpec::fam("uniform", (n + d) as u64))
                                        .with_p(vec![d as i64, o as i64, s, (d % 2) as i64]),
                                );
                            }
                        }
                    }
                }
            }
        }
        if ctx.done() {
            return;
        }
    }
    // complete sparse families at larger bounds: every prime with 11-smooth p-1 (vectorised AVX2 Rader: gather indices
    // computed by vector modular arithmetic) and every prime with 23-smooth p-1 (portable Rader)
    {
        // landmark lengths up to 2^21 (quick) / 2^22 (thorough): a guarded call needs no reference, so these are cheap
        let mut marks = crate::gen::landmark_lengths(ctx.tier.pick(18u32, 21), ctx.tier == Tier::Thorough);
        if ctx.tier == Tier::Quick {
            marks.extend([5usize << 19, 531441, 390625, 262501, 1 << 20]);
        }
        for (i, &n) in marks.iter().enumerate().rev() {
            for (pi, planner) in [Planner::Scalar, Planner::Sse, Planner::Avx].iter().enumerate() {
                if !ctx.mine() {
                    continue;
                }
                // the debug-assertion build keeps to the moderate sizes
                if is_chk && n > 1 << 16 {
                    continue;
                }
                let ty = TYS[(i + pi) % 2];
                let e = ENTRIES[(i / 2 + pi) % 4];
                ctx.exec(&Case::new("C03", "guard", *planner, ty, DIRS[i % 2], n).with_entry(e).with_input(InputSpec::fam("uniform", n as u64)).with_p(vec![((i + pi) % 4) as i64, 0]));
            }
            if ctx.done() {
                return;
            }
        }
        let bound = ctx.tier.pick(1usize << 19, 1 << 21);
        let fams = Families::new(bound);
        for (fname, planners) in [("prime_rader_11smooth", [Planner::Avx, Planner::Auto]), ("prime_rader_23smooth", [Planner::Scalar, Planner::Sse])] {
            let list: Vec<usize> = fams.fams.iter().find(|f| f.0 == fname).map(|f| f.1.clone()).unwrap_or_default();
            // the portable Rader (scalar/SSE planners) is several times slower: bound 2^17 (quick) / 2^20 (thorough) there
            let fam_bound = if fname == "prime_rader_23smooth" { bound / 4 } else { bound };
            for &q in list.iter().rev() {
                if q <= dense || q > fam_bound || !ctx.mine() || (is_chk && q > 1 << 15) {
                    continue;
                }
                for (pi, planner) in planners.iter().enumerate() {
                    for ty in TYS {
                        let e = ENTRIES[(q / 2 + pi + ty as usize) % 4];
                        ctx.exec(&Case::new("C03", "guard", *planner, ty, DIRS[(q / 4) % 2], q).with_entry(e).with_chunks(1 + (q / 8) % 2).with_input(InputSpec::fam("uniform", q as u64)).with_p(vec![0, 0]));
                    }
                }
                if ctx.done() {
                    return;
                }
            }
        }
    }
    let fams = Families::new(nmax);
    let nf = fams.count();
    let strat = (0..nf, any::<u64>(), 0..4usize, 0..2usize, 0..2usize, 0..4usize, 1..=8usize, 0..4i64).prop_map(
        move |(fam, r, pl, ty, dir, en, k, flush)| {
            let (n, _) = fams.pick_biased(fam, r);
            let k = if n * k > 1 << 17 { 1 } else { k };
            Case::new("C03", "guard", PLANNERS[pl], TYS[ty], DIRS[dir], n)
                .with_entry(ENTRIES[en])
                .with_chunks(k)
                .with_input(InputSpec::fam("uniform", r))
                .with_p(vec![flush, 0])
        },
    );
    ctx.run_random("structured-guard", cases / ctx.nshards as u32, strat);
}

// =============================================================================================
// C06

fn c06_params(tier: Tier) -> (usize, usize, u32) {
    match tier {
        Tier::Quick => (1536, 1 << 18, 3200),
        Tier::Thorough => (4096, 1 << 22, 4000),
    }
}
pub fn c06_meta(tier: Tier) -> Meta {
    let (dense, nmax, cases) = c06_params(tier);
    basic(
        format!(
            "Metamorphic, oracle-free: for (planner, type, n) with n in 1..={dense} exhaustively, every prime up to 2^14 (quick) / 2^17 (thorough) on a rotating concrete planner, and {cases} proptest-drawn structured lengths up to {nmax}: plan both directions (forward-then-inverse on one planner, inverse-then-forward on one planner, or two planners), apply them through two independently chosen entry points to a generated input x and require ||inv(fwd(x)) - n*x|| <= 2.5*B*n*||x||, the same for fwd(inv(x)), and ||inv(x) - conj(fwd(conj x))|| <= 2.5*B*||.||, B = 16*eps*log2(2n) (2B + B^2 < 2.5B, so any C02-conforming pair passes). A stray 1/n or 1/sqrt(n) scaling, or a direction mix-up in a cache, is an O(1) miss. \
             Non-trivial: n >= 2 and x != 0; distinct = (planner,type,n,order,entry pair,input)."
        ),
        "dense range enumerated completely for all 3 planning orders; structured part sampled",
        &["errors that are symmetric in both directions (e.g. frequency k -> -k in both) cancel in this relation; they are C01's job"],
    )
}
pub fn c06_worker(ctx: &mut Ctx) {
    let (dense, nmax, cases) = c06_params(ctx.tier);
    const INS: [&str; 6] = ["uniform", "impulse", "tone_off", "wide", "spikes", "conjsym"];
    for n in 0..=dense {
        for ty in TYS {
            for planner in PLANNERS {
                if !ctx.mine() {
                    continue;
                }
                for order in 0..3i64 {
                    let e1 = ENTRIES[(n + order as usize) % 4];
                    let e2 = ((n / 4 + 2 * order as usize + 1) % 4) as i64;
                    ctx.exec(
                        &Case::new("C06", "roundtrip", planner, ty, Dir::Fwd, n)
                            .with_entry(e1)
                            .with_input(InputSpec::fam(INS[(n + order as usize) % INS.len()], n as u64 + 11))
                            .with_p(vec![order, e2]),
                    );
                }
            }
        }
        if ctx.done() {
            return;
        }
    }
    // every prime up to 2^14 (quick) / 2^17 (thorough): Rader/Bluestein set-up (primitive roots, chirps) is per-prime code
    {
        let pmax = ctx.tier.pick(1usize << 14, 1 << 17);
        let fams = Families::new(pmax);
        let primes: Vec<usize> = fams.fams.iter().find(|f| f.0 == "prime_any").map(|f| f.1.clone()).unwrap_or_default();
        for (i, &q) in primes.iter().enumerate().rev() {
            if q <= dense || !ctx.mine() {
                continue;
            }
            let planner = [Planner::Scalar, Planner::Sse, Planner::Avx][i % 3];
            ctx.exec(
                &Case::new("C06", "roundtrip", planner, TYS[(i / 3) % 2], Dir::Fwd, q)
                    .with_entry(ENTRIES[i % 4])
                    .with_input(InputSpec::fam("uniform", q as u64))
                    .with_p(vec![(i % 3) as i64, ((i / 2) % 4) as i64]),
            );
            if ctx.done() {
                return;
            }
        }
    }
    let fams = Families::new(nmax);
    let nf = fams.count();
    let strat = (0..nf, any::<u64>(), 0..4usize, 0..2usize, 0..3i64, 0..4usize, 0..4i64, 0..crate::gen::INPUT_FAMILIES.len(), any::<u64>()).prop_map(
        move |(fam, r, pl, ty, order, e1, e2, inf, seed)| {
            let (n, _) = fams.pick_biased(fam, r);
            Case::new("C06", "roundtrip", PLANNERS[pl], TYS[ty], Dir::Fwd, n)
                .with_entry(ENTRIES[e1])
                .with_input(InputSpec::fam(crate::gen::INPUT_FAMILIES[inf], seed))
                .with_p(vec![order, e2])
        },
    );
    ctx.run_random("structured-roundtrip", cases / ctx.nshards as u32, strat);
}

// =============================================================================================
// C07

fn c07_params(tier: Tier) -> (usize, usize, u32) {
    match tier {
        Tier::Quick => (1024, 1 << 14, 4800),
        Tier::Thorough => (2048, 1 << 16, 9600),
    }
}
pub fn c07_meta(tier: Tier) -> Meta {
    let (dense, nmax, cases) = c07_params(tier);
    basic(
        format!(
            "For every n in 1..={dense} x 4 planners x f32/f64 x 2 directions x the three explicit-scratch entry points (+ process()), with chunk counts k cycling over 2..8 (odd and even) and {cases} proptest-drawn structured lengths up to {nmax} with k in 1..8: \
             the k-chunk call being given scratch of exactly the advertised length or one of the oversized lengths {{2*adv, k*max(adv,n), adv+4n, (k+3)n+k*adv}} (a transform may batch chunks when the scratch has room): (A) every chunk of the k-chunk call equals the same chunk transformed alone within 2.5*B (not bitwise: the SSE f32 two-chunks-at-a-time butterflies legitimately round differently from the single-chunk path); \
             (B) isolation: a second k-chunk call that keeps one chunk and replaces ALL other chunks by NaN / +Inf / -Inf / huge / other finite data must reproduce that chunk's result bit-for-bit and finite (same code path and data, so bitwise equality is sound; any read of a neighbouring chunk shows up as NaN taint). \
             Non-trivial: k >= 2 and n >= 2; distinct = (planner,type,direction,n,entry,k,kept chunk,filler,input)."
        ),
        "dense range enumerated completely; structured part sampled",
        &[],
    )
}
pub fn c07_worker(ctx: &mut Ctx) {
    let (dense, nmax, cases) = c07_params(ctx.tier);
    for n in 1..=dense {
        for ty in TYS {
            for dir in DIRS {
                for planner in PLANNERS {
                    if !ctx.mine() {
                        continue;
                    }
                    for (ei, entry) in ENTRIES.iter().enumerate() {
                        let k = 2 + (n + 2 * ei + if dir == Dir::Inv { 3 } else { 0 }) % 7;
                        let keep = ((n + ei) % k) as i64;
                        let filler = 1 + ((n + ei) % 5) as i64;
                        ctx.exec(
                            &Case::new("C07", "chunks", planner, ty, dir, n)
                                .with_entry(*entry)
                                .with_chunks(k)
                                .with_input(InputSpec::fam(["uniform", "silence_mix", "periodic", "spikes"][(n + ei) % 4], n as u64 * 5 + ei as u64))
                                .with_p(vec![keep, filler, [0i64, -2, 0, -3, -1, -4, 17][(n / 2 + ei) % 7]]),
                        );
                        // the same transform obtained from a planner with a minimal history (opposite direction first)
                        if (n + ei) % 3 == 1 && planner != Planner::Auto {
                            ctx.exec(
                                &Case::new("C07", "chunks", planner, ty, dir, n)
                                    .with_entry(*entry)
                                    .with_chunks(3 + n % 2)
                                    .with_source(Source::History { reqs: vec![Req { n, dir: dir.other() }, Req { n, dir }], pick: 1 })
                                    .with_input(InputSpec::fam("uniform", n as u64 + 23))
                                    .with_p(vec![(n % 3) as i64, 1 + (n % 4) as i64]),
                            );
                        }
                        // the smallest even / odd counts always, and for short transforms one count beyond 8
                        let kbig = 9 + (n + ei) % 9;
                        for k2 in if n <= 128 { vec![2usize, 3, kbig] } else { vec![2usize, 3] } {
                            if k2 != k {
                                ctx.exec(
                                    &Case::new("C07", "chunks", planner, ty, dir, n)
                                        .with_entry(*entry)
                                        .with_chunks(k2)
                                        .with_input(InputSpec::fam(if (n + k2) % 3 == 0 { "silence_mix" } else { "gaussish" }, n as u64 + 1))
                                        .with_p(vec![(n % k2) as i64, 1, if k2 > 3 { [-3i64, -2, -4][n % 3] } else { 0 }]),
                                );
                            }
                        }
                    }
                }
            }
        }
        if ctx.done() {
            return;
        }
    }
    let fams = Families::new(nmax);
    let nf = fams.count();
    // chunk counts 1..8 as the property's quantifier says, and now and then 9..17 (the statement covers every k >= 1; a
    // wider unroll factor or a batch loop would first show beyond 8)
    let strat = (0..nf, any::<u64>(), 0..4usize, 0..2usize, 0..2usize, 0..4usize, prop_oneof![5 => 1..=8usize, 1 => 9..=17usize], 0..8i64, 1..=5i64, any::<u64>()).prop_map(
        move |(fam, r, pl, ty, dir, en, k, keep, filler, seed)| {
            let (n, _) = fams.pick_biased(fam, r);
            let k = if n * k > 1 << 17 { k.min(8) } else { k };
            Case::new("C07", "chunks", PLANNERS[pl], TYS[ty], DIRS[dir], n)
                .with_entry(ENTRIES[en])
                .with_chunks(k)
                .with_input(InputSpec::fam(["wide", "uniform", "silence_mix", "periodic", "uniform", "const"][(seed % 6) as usize], seed))
                .with_p(vec![keep, filler, [0i64, -2, -3, -4, -1, 1][((seed >> 8) % 6) as usize]])
        },
    );
    ctx.run_random("structured-chunks", cases / ctx.nshards as u32, strat);
}

// =============================================================================================
// C08

fn c08_params(tier: Tier) -> (usize, usize, u32) {
    match tier {
        Tier::Quick => (2048, 1 << 15, 6400),
        Tier::Thorough => (3000, 1 << 18, 12800),
    }
}
pub fn c08_meta(tier: Tier) -> Meta {
    let (dense, nmax, cases) = c08_params(tier);
    basic(
        format!(
            "For every n in 1..={dense} x 4 planners x f32/f64 x 2 directions x the three explicit-scratch entry points, and {cases} proptest-drawn structured lengths up to {nmax} (incl. nested Bluestein/Rader inside mixed radix such as 2^a*p): a baseline call (scratch of EXACTLY the advertised length, zero-filled scratch and output) must not panic, and a second call with scratch length in {{adv, adv+1, adv+17, 2*adv, k*max(adv,n), adv+4n, (k+3)n+k*adv}}, scratch initial contents in {{zero, NaN, +Inf, -Inf, huge finite, -1.5}} and output initial contents from the same set (chunks 1, 3, 5..9) must produce a finite, BIT-IDENTICAL output. Any use of a stale scratch/output value becomes a NaN/Inf taint or a bit difference. \
             Non-trivial: advertised scratch > 0 or a two-buffer entry point; distinct = (planner,type,direction,n,entry,chunks,slack,fills,input)."
        ),
        "dense range: every n with a rotating subset of the (slack, fill, fill) grid; NaN scratch + NaN output with exact length is always included",
        &["bitwise comparison assumes the transform is deterministic for identical inputs (C11)"],
    )
}
pub fn c08_worker(ctx: &mut Ctx) {
    let (dense, nmax, cases) = c08_params(ctx.tier);
    const SLACK: [i64; 6] = [0, 1, 17, -1, -2, -3];
    for n in 1..=dense {
        for ty in TYS {
            for dir in DIRS {
                for planner in PLANNERS {
                    if !ctx.mine() {
                        continue;
                    }
                    for (ei, entry) in EXPLICIT_ENTRIES.iter().enumerate() {
                        // always: NaN scratch and NaN output, exact length, 1 chunk and 3 chunks
                        for chunks in [1usize, 3] {
                            ctx.exec(
                                &Case::new("C08", "scratch", planner, ty, dir, n)
                                    .with_entry(*entry)
                                    .with_chunks(chunks)
                                    .with_input(InputSpec::fam(["uniform", "periodic", "silence_mix", "const", "tone", "impulse", "spikes", "alt"][(n + chunks + ei) % 8], n as u64 + 3))
                                    .with_p(vec![0, 1, 1]),
                            );
                        }
                        // the same transform obtained from a planner with a minimal history (opposite direction first), NaN fills
                        if (n + ei) % 3 == 0 && planner != Planner::Auto {
                            ctx.exec(
                                &Case::new("C08", "scratch", planner, ty, dir, n)
                                    .with_entry(*entry)
                                    .with_chunks(2)
                                    .with_source(Source::History { reqs: vec![Req { n, dir: dir.other() }, Req { n, dir }], pick: 1 })
                                    .with_input(InputSpec::fam("uniform", n as u64 + 17))
                                    .with_p(vec![SLACK[(n / 3) % 4], 1, 1]),
                            );
                        }
                        // many chunks with a scratch several chunks long (a transform may batch chunks when the scratch has room)
                        if (n + ei) % 2 == 0 {
                            ctx.exec(
                                &Case::new("C08", "scratch", planner, ty, dir, n)
                                    .with_entry(*entry)
                                    .with_chunks([5usize, 7, 6, 9][(n / 2 + ei) % 4])
                                    .with_input(InputSpec::fam("uniform", n as u64 + 29))
                                    .with_p(vec![[-3i64, -2, -4][(n / 2) % 3], ((n / 6) % 6) as i64, 1]),
                            );
                        }
                        // rotating part of the grid
                        let slack = SLACK[(n + ei) % 6];
                        let sf = ((n / 4 + ei) % 6) as i64;
                        let of = ((n / 24 + 2 * ei + 1) % 6) as i64;
                        ctx.exec(
                            &Case::new("C08", "scratch", planner, ty, dir, n)
                                .with_entry(*entry)
                                .with_chunks(if n % 2 == 0 { 1 } else { 3 })
                                .with_input(InputSpec::fam("gaussish", n as u64))
                                .with_p(vec![slack, sf, of]),
                        );
                    }
                }
            }
        }
        if ctx.done() {
            return;
        }
    }
    let fams = Families::new(nmax);
    let nf = fams.count();
    let strat = (0..nf, any::<u64>(), 0..4usize, 0..2usize, 0..2usize, 0..3usize, 0..6usize, 0..6i64, 0..6i64, prop_oneof![Just(1usize), Just(3usize), Just(5usize), Just(8usize)], any::<u64>()).prop_map(
        move |(fam, r, pl, ty, dir, en, sl, sf, of, chunks, seed)| {
            let (n, _) = fams.pick_biased(fam, r);
            Case::new("C08", "scratch", PLANNERS[pl], TYS[ty], DIRS[dir], n)
                .with_entry(EXPLICIT_ENTRIES[en])
                .with_chunks(chunks)
                .with_input(InputSpec::fam(["uniform", "periodic", "silence_mix", "const", "tone", "spikes"][(seed % 6) as usize], seed))
                .with_p(vec![SLACK[sl], sf, of])
        },
    );
    ctx.run_random("structured-scratch", cases / ctx.nshards as u32, strat);
}

// =============================================================================================
// C15

fn c15_params(tier: Tier) -> (usize, usize, u32) {
    match tier {
        Tier::Quick => (768, 1 << 14, 3200),
        Tier::Thorough => (4096, 1 << 18, 12800),
    }
}
pub fn c15_meta(tier: Tier) -> Meta {
    let (dense, nmax, cases) = c15_params(tier);
    basic(
        format!(
            "process_immutable_with_scratch on every n in 1..={dense} x 4 planners x f32/f64 x 2 directions with chunk counts cycling over 1..8, and {cases} proptest-drawn structured lengths up to {nmax}; well-shaped calls and the ill-shaped immutable shapes of the C09 matrix (wrong data/output/scratch lengths, ending in a panic that is caught). Oracle: the input slice is compared bit-for-bit before/after, also when the call panics; half of the cases additionally place the input in a PROT_READ mapping, so a write-then-restore is a fault in the worker. Scratch initial contents vary (zero/NaN/Inf/huge). Every n of the dense range is also checked on a transform obtained from a planner WITH history (opposite direction of the same length and a multiple planned first on the same Scalar/Sse/Avx planner): one read-only well-shaped call and three ill-shaped calls. Also run on the build with debug assertions, and (every n <= 160/512, fresh and history-obtained transforms, well- and ill-shaped) on an UNOPTIMISED build: a write through the shared input reference is undefined behaviour, which an optimising build may delete while `cargo test`-style builds execute it. \
             Non-trivial: n >= 2; distinct = (planner,type,direction,n,shape,readonly,input)."
        ),
        "dense range enumerated completely; structured part sampled",
        &[],
    )
}
pub fn c15_worker(ctx: &mut Ctx) {
    let (dense, nmax, cases) = c15_params(ctx.tier);
    let is_chk = crate::runner::current_variant() == "chk";
    if crate::runner::current_variant() == "dbg" {
        // unoptimised build: every n up to 160 (quick) / 512 (thorough), fresh planner and planner with history, well-shaped
        // (input compared bitwise, and once in a read-only mapping) and ill-shaped calls
        for n in 1..=ctx.tier.pick(160usize, 512) {
            for ty in TYS {
                for dir in DIRS {
                    for planner in [Planner::Scalar, Planner::Sse, Planner::Avx] {
                        if !ctx.mine() {
                            continue;
                        }
                        let nn = n as i64;
                        let k = 1 + (n % 3) as i64;
                        let hist = Source::History { reqs: vec![Req { n, dir: dir.other() }, Req { n, dir }], pick: 1 };
                        for (si, src) in [Source::Plan, hist].iter().enumerate() {
                            if si == 1 && n < 2 {
                                continue;
                            }
                            for (d, o, s, ro) in [(nn * k, nn * k, 2i64, 0i64), (nn, nn, 2, 1), (nn + 1, nn + 1, 2, 0), (2 * nn, 2 * nn, 1, 0), (nn, nn + nn, 2, 0)] {
                                ctx.exec(
                                    &Case::new("C15", "immut", planner, ty, dir, n)
                                        .with_entry(Entry::Immutable)
                                        .with_chunks(if d == nn * k { k as usize } else { 1 })
                                        .with_source(src.clone())
                                        .with_input(InputSpec::fam("uniform", (n * 5) as u64 + d as u64))
                                        .with_p(vec![d, o, s, ro, (n % 5) as i64]),
                                );
                            }
                        }
                    }
                }
            }
            if ctx.done() {
                return;
            }
        }
        return;
    }
    let step = if is_chk { 2 } else { 1 };
    let mut n = 1;
    while n <= dense {
        for ty in TYS {
            for dir in DIRS {
                for planner in PLANNERS {
                    if !ctx.mine() {
                        continue;
                    }
                    let k = 1 + (n + if dir == Dir::Inv { 4 } else { 0 }) % 8;
                    let k = if n * k > 1 << 15 { 1 } else { k };
                    for ro in 0..2i64 {
                        let d = (n * k) as i64;
                        ctx.exec(
                            &Case::new("C15", "immut", planner, ty, dir, n)
                                .with_entry(Entry::Immutable)
                                .with_chunks(k)
                                .with_input(InputSpec::fam("uniform", n as u64 + ro as u64))
                                .with_p(vec![d, d, 2, ro, (n % 5) as i64]),
                        );
                    }
                    if k != 1 {
                        ctx.exec(
                            &Case::new("C15", "immut", planner, ty, dir, n)
                                .with_entry(Entry::Immutable)
                                .with_input(InputSpec::fam("wide", n as u64))
                                .with_p(vec![n as i64, n as i64, 2, 1, 1]),
                        );
                    }
                    // the same transform obtained from a planner WITH history (the opposite direction of the same length, and a
                    // multiple, planned first): a read-only well-shaped call and two ill-shaped calls (ragged input, short scratch)
                    if n >= 2 && planner != Planner::Auto {
                        // odd n: just the opposite direction first; even n: a multiple in between as well
                        let hist = |pick_dir: Dir| {
                            if n % 2 == 1 {
                                Source::History { reqs: vec![Req { n, dir: pick_dir.other() }, Req { n, dir: pick_dir }], pick: 1 }
                            } else {
                                Source::History { reqs: vec![Req { n, dir: pick_dir.other() }, Req { n: 2 * n, dir: pick_dir }, Req { n, dir: pick_dir }], pick: 2 }
                            }
                        };
                        let nn = n as i64;
                        for (d, o, s, ro) in [(nn, nn, 2i64, 1i64), (nn + 1, nn + 1, 2, 0), (2 * nn, 2 * nn, 1, 0), (nn, nn - 1, 2, (n % 2) as i64)] {
                            ctx.exec(
                                &Case::new("C15", "immut", planner, ty, dir, n)
                                    .with_entry(Entry::Immutable)
                                    .with_source(hist(dir))
                                    .with_input(InputSpec::fam("uniform", (n * 3) as u64 + d as u64))
                                    .with_p(vec![d, o, s, ro, (n % 5) as i64]),
                            );
                        }
                    }
                    if n <= 96 || n % 29 == 0 {
                        for (d, o, s) in shape_matrix(n, Entry::Immutable, false, 5) {
                            ctx.exec(
                                &Case::new("C15", "immut", planner, ty, dir, n)
                                    .with_entry(Entry::Immutable)
                                    .with_input(InputSpec::fam("uniform", (n + d) as u64))
                                    .with_p(vec![d as i64, o as i64, s, (d % 2) as i64, 1]),
                            );
                        }
                    }
                }
            }
        }
        if ctx.done() {
            return;
        }
        n += step;
    }
    let fams = Families::new(nmax);
    let nf = fams.count();
    let strat = (0..nf, any::<u64>(), 0..4usize, 0..2usize, 0..2usize, 1..=8usize, 0..2i64, 0..5i64, 0..30usize).prop_map(
        move |(fam, r, pl, ty, dir, k, ro, sfill, which)| {
            let (n, _) = fams.pick_biased(fam, r);
            let k = if n * k > 1 << 17 { 1 } else { k };
            let (d, o, s) = if which < 20 {
                (n * k, n * k, 2)
            } else {
                let m = shape_matrix(n, Entry::Immutable, false, 3);
                m[(which - 20) * m.len() / 10]
            };
            Case::new("C15", "immut", PLANNERS[pl], TYS[ty], DIRS[dir], n)
                .with_entry(Entry::Immutable)
                .with_chunks(k)
                .with_input(InputSpec::fam("uniform", r))
                .with_p(vec![d as i64, o as i64, s, ro, sfill])
        },
    );
    ctx.run_random("structured-immut", cases / ctx.nshards as u32, strat);
}
