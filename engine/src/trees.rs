//! Expression trees over the public algorithm constructors (C12): building, lengths, precondition checks.
use crate::exec::{catch, AnyPlanner};
use crate::gen::{gcd, is_prime};
use crate::types::*;
use rustfft::algorithm::butterflies::*;
use rustfft::algorithm::*;
use rustfft::{Fft, FftNum};
use std::sync::Arc;

pub fn tree_len(t: &Tree) -> usize {
    match t {
        Tree::Butterfly(n) | Tree::Dft(n) | Tree::Radix4(n) | Tree::Radix3(n) => *n,
        Tree::Planned(_, n) => *n,
        Tree::Radix4Base(k, b) => tree_len(b) << (2 * k),
        Tree::Radix3Base(k, b) => tree_len(b) * 3usize.pow(*k),
        Tree::MixedRadix(a, b) | Tree::MixedRadixSmall(a, b) | Tree::GoodThomas(a, b) | Tree::GoodThomasSmall(a, b) => {
            tree_len(a) * tree_len(b)
        }
        Tree::Raders(a) => tree_len(a) + 1,
        Tree::Bluesteins(n, _) => *n,
    }
}
pub fn tree_depth(t: &Tree) -> usize {
    match t {
        Tree::Butterfly(_) | Tree::Dft(_) | Tree::Radix4(_) | Tree::Radix3(_) | Tree::Planned(_, _) => 0,
        Tree::Radix4Base(_, b) | Tree::Radix3Base(_, b) | Tree::Raders(b) | Tree::Bluesteins(_, b) => 1 + tree_depth(b),
        Tree::MixedRadix(a, b) | Tree::MixedRadixSmall(a, b) | Tree::GoodThomas(a, b) | Tree::GoodThomasSmall(a, b) => {
            1 + tree_depth(a).max(tree_depth(b))
        }
    }
}
pub fn tree_name(t: &Tree) -> &'static str {
    match t {
        Tree::Butterfly(_) => "Butterfly",
        Tree::Dft(_) => "Dft",
        Tree::Planned(_, _) => "Planned",
        Tree::Radix4(_) => "Radix4::new",
        Tree::Radix4Base(_, _) => "Radix4::new_with_base",
        Tree::Radix3(_) => "Radix3::new",
        Tree::Radix3Base(_, _) => "Radix3::new_with_base",
        Tree::MixedRadix(_, _) => "MixedRadix",
        Tree::MixedRadixSmall(_, _) => "MixedRadixSmall",
        Tree::GoodThomas(_, _) => "GoodThomasAlgorithm",
        Tree::GoodThomasSmall(_, _) => "GoodThomasAlgorithmSmall",
        Tree::Raders(_) => "RadersAlgorithm",
        Tree::Bluesteins(_, _) => "BluesteinsAlgorithm",
    }
}
pub fn describe(t: &Tree) -> String {
    match t {
        Tree::Butterfly(n) => format!("Butterfly{}", n),
        Tree::Dft(n) => format!("Dft({})", n),
        Tree::Planned(p, n) => format!("Planned({:?},{})", p, n),
        Tree::Radix4(n) => format!("Radix4::new({})", n),
        Tree::Radix4Base(k, b) => format!("Radix4::new_with_base({},{})", k, describe(b)),
        Tree::Radix3(n) => format!("Radix3::new({})", n),
        Tree::Radix3Base(k, b) => format!("Radix3::new_with_base({},{})", k, describe(b)),
        Tree::MixedRadix(a, b) => format!("MixedRadix({},{})", describe(a), describe(b)),
        Tree::MixedRadixSmall(a, b) => format!("MixedRadixSmall({},{})", describe(a), describe(b)),
        Tree::GoodThomas(a, b) => format!("GoodThomasAlgorithm({},{})", describe(a), describe(b)),
        Tree::GoodThomasSmall(a, b) => format!("GoodThomasAlgorithmSmall({},{})", describe(a), describe(b)),
        Tree::Raders(a) => format!("RadersAlgorithm({})", describe(a)),
        Tree::Bluesteins(n, a) => format!("BluesteinsAlgorithm({},{})", n, describe(a)),
    }
}
pub fn node_names(t: &Tree, out: &mut Vec<&'static str>) {
    out.push(tree_name(t));
    match t {
        Tree::Radix4Base(_, b) | Tree::Radix3Base(_, b) | Tree::Raders(b) | Tree::Bluesteins(_, b) => node_names(b, out),
        Tree::MixedRadix(a, b) | Tree::MixedRadixSmall(a, b) | Tree::GoodThomas(a, b) | Tree::GoodThomasSmall(a, b) => {
            node_names(a, out);
            node_names(b, out);
        }
        _ => {}
    }
}

pub const BUTTERFLY_LENS: [usize; 21] = [1, 2, 3, 4, 5, 6, 7, 8, 9, 11, 12, 13, 16, 17, 19, 23, 24, 27, 29, 31, 32];

/// Twiddle moduli a tree's *portable* code uses (for the exact finite-field oracle); None if unknown
/// (planner-produced leaves: the caller asks the plan-report hook instead).
pub fn moduli(t: &Tree, out: &mut Vec<u64>) {
    out.push(tree_len(t).max(1) as u64);
    out.push(8);
    match t {
        Tree::Radix4(n) => {
            // every intermediate cross length divides n
            out.push((*n).max(1) as u64);
        }
        Tree::Radix3(n) => {
            out.push((*n).max(1) as u64);
            out.push(3); // Radix3 always owns a Butterfly3, even for k = 0
        }
        Tree::Radix4Base(_, b) => moduli(b, out),
        Tree::Radix3Base(k, b) => {
            out.push(3);
            // intermediate cross lengths base*3^j (not power-of-two related to the total length)
            let mut l = tree_len(b).max(1) as u64;
            for _ in 0..*k {
                l *= 3;
                out.push(l);
            }
            moduli(b, out)
        }
        Tree::MixedRadix(a, b) | Tree::MixedRadixSmall(a, b) | Tree::GoodThomas(a, b) | Tree::GoodThomasSmall(a, b) => {
            moduli(a, out);
            moduli(b, out);
        }
        Tree::Raders(a) => moduli(a, out),
        Tree::Bluesteins(n, a) => {
            out.push(2 * (*n).max(1) as u64);
            moduli(a, out);
        }
        _ => {}
    }
}
pub fn planned_leaves(t: &Tree, out: &mut Vec<(Planner, usize)>) {
    match t {
        Tree::Planned(p, n) => out.push((*p, *n)),
        Tree::Radix4Base(_, b) | Tree::Radix3Base(_, b) | Tree::Raders(b) | Tree::Bluesteins(_, b) => planned_leaves(b, out),
        Tree::MixedRadix(a, b) | Tree::MixedRadixSmall(a, b) | Tree::GoodThomas(a, b) | Tree::GoodThomasSmall(a, b) => {
            planned_leaves(a, out);
            planned_leaves(b, out);
        }
        _ => {}
    }
}

fn butterfly<T: FftNum>(n: usize, dir: Dir) -> Option<Arc<dyn Fft<T>>> {
    let d = dir.to_fft();
    Some(match n {
        1 => Arc::new(Butterfly1::new(d)),
        2 => Arc::new(Butterfly2::new(d)),
        3 => Arc::new(Butterfly3::new(d)),
        4 => Arc::new(Butterfly4::new(d)),
        5 => Arc::new(Butterfly5::new(d)),
        6 => Arc::new(Butterfly6::new(d)),
        7 => Arc::new(Butterfly7::new(d)),
        8 => Arc::new(Butterfly8::new(d)),
        9 => Arc::new(Butterfly9::new(d)),
        11 => Arc::new(Butterfly11::new(d)),
        12 => Arc::new(Butterfly12::new(d)),
        13 => Arc::new(Butterfly13::new(d)),
        16 => Arc::new(Butterfly16::new(d)),
        17 => Arc::new(Butterfly17::new(d)),
        19 => Arc::new(Butterfly19::new(d)),
        23 => Arc::new(Butterfly23::new(d)),
        24 => Arc::new(Butterfly24::new(d)),
        27 => Arc::new(Butterfly27::new(d)),
        29 => Arc::new(Butterfly29::new(d)),
        31 => Arc::new(Butterfly31::new(d)),
        32 => Arc::new(Butterfly32::new(d)),
        _ => return None,
    })
}

fn small_ok<T: FftNum>(f: &Arc<dyn Fft<T>>) -> bool {
    f.get_outofplace_scratch_len() == 0 && f.get_inplace_scratch_len() <= f.len()
}

fn ctor<T: FftNum>(what: &str, t: &Tree, f: impl FnOnce() -> Arc<dyn Fft<T>>) -> Result<Arc<dyn Fft<T>>, Outcome> {
    match catch(f) {
        Ok(x) => Ok(x),
        Err(p) => Err(Outcome::bad(format!(
            "constructor {} panicked inside its documented preconditions while building {}: {} @ {}",
            what,
            describe(t),
            p.msg,
            p.loc
        ))),
    }
}

/// Build the tree. Documented/asserted preconditions are checked on the *actual* children first; a tree that
/// does not meet them is `Skipped` (not judged). A panic from a constructor whose preconditions hold is a violation.
pub fn build<T: FftNum>(t: &Tree, dir: Dir) -> Result<Arc<dyn Fft<T>>, Outcome> {
    let skip = |why: String| Err(Outcome::skip(format!("tree outside documented preconditions: {}", why)));
    match t {
        Tree::Butterfly(n) => match butterfly::<T>(*n, dir) {
            Some(b) => Ok(b),
            None => skip(format!("no Butterfly{}", n)),
        },
        Tree::Dft(n) => ctor("Dft::new", t, || Arc::new(Dft::new(*n, dir.to_fft())) as Arc<dyn Fft<T>>),
        Tree::Planned(p, n) => {
            let mut pl = match AnyPlanner::<T>::new(*p) {
                Some(pl) => pl,
                None => return Err(Outcome::skip(format!("planner {:?} unavailable for this element type/configuration", p))),
            };
            ctor("planner", t, move || pl.plan(*n, dir))
        }
        Tree::Radix4(n) => {
            if !n.is_power_of_two() {
                return skip(format!("Radix4::new({}) not a power of two", n));
            }
            ctor("Radix4::new", t, || Arc::new(Radix4::new(*n, dir.to_fft())) as Arc<dyn Fft<T>>)
        }
        Tree::Radix3(n) => {
            let mut m = *n;
            while m > 1 && m % 3 == 0 {
                m /= 3;
            }
            if m != 1 || *n == 0 {
                return skip(format!("Radix3::new({}) not a power of three", n));
            }
            ctor("Radix3::new", t, || Arc::new(Radix3::new(*n, dir.to_fft())) as Arc<dyn Fft<T>>)
        }
        Tree::Radix4Base(k, b) => {
            let base = build::<T>(b, dir)?;
            if base.len() == 0 {
                return skip("base of length 0".into());
            }
            ctor("Radix4::new_with_base", t, || Arc::new(Radix4::new_with_base(*k, base)) as Arc<dyn Fft<T>>)
        }
        Tree::Radix3Base(k, b) => {
            let base = build::<T>(b, dir)?;
            if base.len() == 0 {
                return skip("base of length 0".into());
            }
            ctor("Radix3::new_with_base", t, || Arc::new(Radix3::new_with_base(*k, base)) as Arc<dyn Fft<T>>)
        }
        Tree::MixedRadix(a, b) | Tree::MixedRadixSmall(a, b) | Tree::GoodThomas(a, b) | Tree::GoodThomasSmall(a, b) => {
            let fa = build::<T>(a, dir)?;
            let fb = build::<T>(b, dir)?;
            if fa.len() == 0 || fb.len() == 0 {
                return skip("factor of length 0".into());
            }
            let coprime = gcd(fa.len() as u64, fb.len() as u64) == 1;
            let small = small_ok(&fa) && small_ok(&fb);
            match t {
                Tree::MixedRadix(_, _) => ctor("MixedRadix::new", t, || Arc::new(MixedRadix::new(fa, fb)) as Arc<dyn Fft<T>>),
                Tree::MixedRadixSmall(_, _) => {
                    if !small {
                        return skip("MixedRadixSmall needs inners with 0 out-of-place scratch and in-place scratch <= len".into());
                    }
                    ctor("MixedRadixSmall::new", t, || Arc::new(MixedRadixSmall::new(fa, fb)) as Arc<dyn Fft<T>>)
                }
                Tree::GoodThomas(_, _) => {
                    if !coprime {
                        return skip("GoodThomasAlgorithm needs coprime lengths".into());
                    }
                    ctor("GoodThomasAlgorithm::new", t, || Arc::new(GoodThomasAlgorithm::new(fa, fb)) as Arc<dyn Fft<T>>)
                }
                _ => {
                    if !coprime || !small {
                        return skip("GoodThomasAlgorithmSmall needs coprime lengths and small-scratch inners".into());
                    }
                    ctor("GoodThomasAlgorithmSmall::new", t, || Arc::new(GoodThomasAlgorithmSmall::new(fa, fb)) as Arc<dyn Fft<T>>)
                }
            }
        }
        Tree::Raders(a) => {
            let inner = build::<T>(a, dir)?;
            if !is_prime(inner.len() as u64 + 1) {
                return skip(format!("RadersAlgorithm needs inner.len()+1 prime, got {}", inner.len() + 1));
            }
            ctor("RadersAlgorithm::new", t, || Arc::new(RadersAlgorithm::new(inner)) as Arc<dyn Fft<T>>)
        }
        Tree::Bluesteins(n, a) => {
            let inner = build::<T>(a, dir)?;
            if *n == 0 || inner.len() < 2 * n - 1 {
                return skip(format!("BluesteinsAlgorithm needs inner.len() >= 2*len-1 (len={}, inner={})", n, inner.len()));
            }
            ctor("BluesteinsAlgorithm::new", t, || Arc::new(BluesteinsAlgorithm::new(*n, inner)) as Arc<dyn Fft<T>>)
        }
    }
}
