//! Exact oracle: RustFFT's portable generic code instantiated over a prime field.
//!
//! `Fp` is GF(p); `Complex<Fp>` is GF(p)[i] = GF(p^2) (p = 3 mod 4). The constants the algorithms obtain through
//! `T::from_f64` are cosines/sines of grid angles 2*pi*j/d; they are decoded into the images, under the ring
//! homomorphism Z[1/2][zeta_L] -> GF(p^2), zeta_L -> omega (an element of exact order L with omega^(L/4) = i),
//! of the exact real numbers they stand for. A transform that uses only ring operations then has to output
//! exactly sum_j x_j * omega_n^(-+jk): compared with zero tolerance.
use crate::gen::{factorize, is_prime, lcm, mulmod, powmod, Stream};
use rustfft::num_traits::{FromPrimitive, Num, One, Signed, ToPrimitive, Zero};
use std::cell::{Cell, RefCell};
use std::collections::HashMap;
use std::ops::{Add, Div, Mul, Neg, Rem, Sub};

thread_local! {
    static P: Cell<u64> = Cell::new(0);
    static FIELD: RefCell<Option<Field>> = RefCell::new(None);
    /// counters: divisions, forbidden (non-ring) method calls
    static DIVS: Cell<u64> = Cell::new(0);
    static FORBIDDEN: RefCell<Vec<String>> = RefCell::new(Vec::new());
    static UNDECODABLE: RefCell<Vec<f64>> = RefCell::new(Vec::new());
    static AMBIGUOUS: Cell<u64> = Cell::new(0);
    static TOL_DECODED: Cell<u64> = Cell::new(0);
    static LITERAL: Cell<u64> = Cell::new(0);
}

/// Prime-field element. The stored word is the residue XOR a seal constant, so that the all-zero bit pattern (and most
/// other fabricated patterns: memset, `mem::zeroed`, `MaybeUninit`, a transmuted float) is NOT a valid element: the public
/// numeric bound says nothing about representations, so generic code may only obtain values through the type's own
/// operations (`zero()`, `one()`, `from_*`, arithmetic, `Copy`). Any operation on a fabricated word panics with the
/// marker VF-FABRICATED, which the exact check reports as a violation of C14 ("uses only that type's ring operations").
#[derive(Copy, Clone, Debug, PartialEq, Eq)]
pub struct Fp(u64);
const SEAL: u64 = 0xA5C3_96E1_0000_0000;
impl Fp {
    #[inline]
    pub fn new(v: u64) -> Fp {
        Fp(v ^ SEAL)
    }
    /// the residue; panics on a word that no operation of this type can have produced
    #[inline]
    pub fn val(self) -> u64 {
        let v = self.0 ^ SEAL;
        if v >= p() {
            fabricated(self.0);
        }
        v
    }
    /// residue without the validity check (for reporting)
    pub fn raw(self) -> u64 {
        self.0
    }
}
#[cold]
fn fabricated(word: u64) -> ! {
    panic!("VF-FABRICATED: element with raw bits {:#018x} was not produced by any operation of the element type (zeroed / uninitialised / reinterpreted memory)", word);
}

#[inline]
fn p() -> u64 {
    P.with(|c| c.get())
}

pub struct Field {
    pub p: u64,
    pub l: u64,
    /// omega: order L, norm 1, omega^(L/4) = i
    pub omega: C2,
    /// f64 bits -> field element (None = ambiguous: two different field elements share these bits)
    table: HashMap<u64, Option<u64>>,
    /// sorted (value, field element) for the tolerance fallback
    sorted: Vec<(f64, u64)>,
}

/// element of GF(p^2) for the oracle's own arithmetic
#[derive(Copy, Clone, Debug, PartialEq, Eq)]
pub struct C2 {
    pub re: u64,
    pub im: u64,
}
impl C2 {
    pub const ONE: C2 = C2 { re: 1, im: 0 };
    pub fn mul(self, o: C2, p: u64) -> C2 {
        let a = mulmod(self.re, o.re, p);
        let b = mulmod(self.im, o.im, p);
        let c = mulmod(self.re, o.im, p);
        let d = mulmod(self.im, o.re, p);
        C2 { re: (a + p - b) % p, im: (c + d) % p }
    }
    pub fn add(self, o: C2, p: u64) -> C2 {
        C2 { re: (self.re + o.re) % p, im: (self.im + o.im) % p }
    }
    pub fn sub(self, o: C2, p: u64) -> C2 {
        C2 { re: (self.re + p - o.re) % p, im: (self.im + p - o.im) % p }
    }
    pub fn conj(self, p: u64) -> C2 {
        C2 { re: self.re, im: (p - self.im) % p }
    }
    pub fn pow(self, mut e: u128, p: u64) -> C2 {
        let mut r = C2::ONE;
        let mut b = self;
        while e > 0 {
            if e & 1 == 1 {
                r = r.mul(b, p);
            }
            b = b.mul(b, p);
            e >>= 1;
        }
        r
    }
    pub fn inv(self, p: u64) -> C2 {
        // 1/(a+bi) = (a-bi)/(a^2+b^2)
        let n = (mulmod(self.re, self.re, p) + mulmod(self.im, self.im, p)) % p;
        let ni = powmod(n, p - 2, p);
        C2 { re: mulmod(self.re, ni, p), im: mulmod((p - self.im) % p, ni, p) }
    }
}

#[derive(Debug)]
pub enum FieldError {
    TooLarge(String),
}

/// Install a field able to decode the twiddles of every modulus in `moduli`.
pub fn install(moduli: &[u64], seed: u64) -> Result<(u64, u64), FieldError> {
    let mut l: u64 = 8;
    for &d in moduli {
        if d == 0 {
            continue;
        }
        l = match lcm(l, d) {
            Some(x) if x < (1u64 << 56) => x,
            _ => return Err(FieldError::TooLarge(format!("lcm of twiddle moduli exceeds 2^56 (moduli {:?})", moduli))),
        };
    }
    let total: u64 = moduli.iter().sum();
    if total > 3_000_000 {
        return Err(FieldError::TooLarge(format!("decode table would have {} entries", total)));
    }
    // reuse if identical
    let reuse = FIELD.with(|f| f.borrow().as_ref().map(|f| f.l == l).unwrap_or(false));
    if reuse {
        let (p_, l_) = FIELD.with(|f| {
            let f = f.borrow();
            let f = f.as_ref().unwrap();
            (f.p, f.l)
        });
        // tables may lack some moduli of this request: rebuild unless all are divisors already inserted — keep it simple, rebuild
        let _ = (p_, l_);
    }
    // smallest prime p = k*L - 1 above 2^40
    let mut k = ((1u64 << 40) / l).max(1);
    let prime = loop {
        let cand = match k.checked_mul(l) {
            Some(x) if x < (1u64 << 62) => x - 1,
            _ => return Err(FieldError::TooLarge("no prime p = -1 mod L below 2^62".into())),
        };
        if cand % 4 == 3 && is_prime(cand) {
            break cand;
        }
        k += 1;
    };
    P.with(|c| c.set(prime));
    // element of exact order L in the norm-1 subgroup
    let qs: Vec<u64> = factorize(l).into_iter().map(|x| x.0).collect();
    let mut st = Stream(seed ^ 0x5eed);
    let omega = loop {
        let z = C2 { re: 1 + st.below(prime - 1), im: st.below(prime) };
        let u = z.pow((prime - 1) as u128, prime); // norm 1
        let g = u.pow(((prime as u128 + 1) / l as u128) as u128, prime);
        if qs.iter().all(|&q| g.pow((l / q) as u128, prime) != C2::ONE) {
            let q4 = g.pow((l / 4) as u128, prime);
            if q4 == (C2 { re: 0, im: 1 }) {
                break g;
            } else if q4 == (C2 { re: 0, im: prime - 1 }) {
                break g.conj(prime);
            }
        }
    };
    let mut table: HashMap<u64, Option<u64>> = HashMap::new();
    let mut sorted: Vec<(f64, u64)> = Vec::new();
    let mut put = |x: f64, v: u64| {
        match table.get(&x.to_bits()) {
            Some(Some(old)) if *old != v => {
                table.insert(x.to_bits(), None);
            }
            Some(_) => {}
            None => {
                table.insert(x.to_bits(), Some(v));
                sorted.push((x, v));
            }
        }
    };
    let mut ds: Vec<u64> = moduli.iter().copied().filter(|&d| d > 0).collect();
    ds.push(8);
    ds.sort();
    ds.dedup();
    for &d in &ds {
        let wd = omega.pow((l / d) as u128, prime);
        let mut w = C2::ONE;
        // replay of compute_twiddle's own f64 expression
        let constant = -2f64 * std::f64::consts::PI / d as f64;
        for j in 0..d {
            let angle = constant * j as f64;
            put(angle.cos(), w.re);
            put(angle.sin(), (prime - w.im) % prime);
            w = w.mul(wd, prime);
        }
    }
    // Butterfly8/24's root2 = sqrt(0.5) = cos(2*pi/8)
    let w8 = omega.pow((l / 8) as u128, prime);
    put(0.5f64.sqrt(), w8.re);
    sorted.sort_by(|a, b| a.0.partial_cmp(&b.0).unwrap());
    FIELD.with(|f| *f.borrow_mut() = Some(Field { p: prime, l, omega, table, sorted }));
    reset_counters();
    Ok((prime, l))
}

pub fn reset_counters() {
    DIVS.with(|c| c.set(0));
    FORBIDDEN.with(|c| c.borrow_mut().clear());
    UNDECODABLE.with(|c| c.borrow_mut().clear());
    AMBIGUOUS.with(|c| c.set(0));
    TOL_DECODED.with(|c| c.set(0));
    LITERAL.with(|c| c.set(0));
}
pub fn divs() -> u64 {
    DIVS.with(|c| c.get())
}
pub fn forbidden() -> Vec<String> {
    FORBIDDEN.with(|c| c.borrow().clone())
}
pub fn undecodable() -> Vec<f64> {
    UNDECODABLE.with(|c| c.borrow().clone())
}
pub fn ambiguous() -> u64 {
    AMBIGUOUS.with(|c| c.get())
}
pub fn literal_decoded() -> u64 {
    LITERAL.with(|c| c.get())
}
pub fn tolerance_decoded() -> u64 {
    TOL_DECODED.with(|c| c.get())
}
pub fn with_field<R>(f: impl FnOnce(&Field) -> R) -> R {
    FIELD.with(|fl| f(fl.borrow().as_ref().expect("no field installed")))
}

fn forbid(what: &str) -> ! {
    FORBIDDEN.with(|c| c.borrow_mut().push(what.to_string()));
    panic!("VF-FORBIDDEN: non-ring operation `{}` used on the element type", what);
}

fn decode(x: f64) -> Fp {
    let pr = p();
    let r = FIELD.with(|f| {
        let f = f.borrow();
        let f = f.as_ref().expect("no field installed");
        if let Some(e) = f.table.get(&x.to_bits()) {
            return match e {
                Some(v) => Ok(*v),
                None => Err(true),
            };
        }
        // exact dyadic rationals with a small odd part: m * 2^e
        if x == 0.0 {
            return Ok(0);
        }
        if x.is_finite() {
            let bits = x.to_bits();
            let exp = ((bits >> 52) & 0x7ff) as i64;
            if exp != 0 {
                let mut mant = (bits & ((1u64 << 52) - 1)) | (1u64 << 52);
                let mut e = exp - 1075;
                while mant & 1 == 0 {
                    mant >>= 1;
                    e += 1;
                }
                if mant < (1 << 24) && e > -64 && e < 40 {
                    let mut v = mant % pr;
                    if e >= 0 {
                        v = mulmod(v, powmod(2, e as u64, pr), pr);
                    } else {
                        let inv2 = (pr + 1) / 2;
                        v = mulmod(v, powmod(inv2, (-e) as u64, pr), pr);
                    }
                    if x < 0.0 {
                        v = (pr - v) % pr;
                    }
                    return Ok(v);
                }
            }
        }
        // tolerance fallback (survives refactorings of the twiddle expression): every candidate within 1e-13 must agree
        let lo = f.sorted.partition_point(|e| e.0 < x - 1e-13);
        let mut found: Option<u64> = None;
        for e in f.sorted[lo..].iter().take_while(|e| e.0 <= x + 1e-13) {
            match found {
                None => found = Some(e.1),
                Some(v) if v != e.1 => return Err(true),
                _ => {}
            }
        }
        match found {
            Some(v) => {
                TOL_DECODED.with(|c| c.set(c.get() + 1));
                return Ok(v);
            }
            None => {}
        }
        if !x.is_finite() {
            return Err(false);
        }
        // Is x a twiddle of a modulus this oracle was not told about? (cos/sin of 2*pi*j/d for some d <= 2^17.)
        // Then the oracle's table is incomplete and the case is not judged.
        if x.abs() <= 1.0 {
            let a = x.acos() / (2.0 * std::f64::consts::PI); // fraction of a turn in [0, 0.5]
            let b = x.asin() / (2.0 * std::f64::consts::PI);
            for d in 1..=(1u64 << 17) {
                let df = d as f64;
                let j = (a * df).round();
                if ((2.0 * std::f64::consts::PI * j / df).cos() - x).abs() < 1e-12 {
                    return Err(false);
                }
                let j = (b * df).round();
                if ((2.0 * std::f64::consts::PI * j / df).sin() - x).abs() < 1e-12 {
                    return Err(false);
                }
            }
        }
        // Anything else is taken literally: an f64 IS a dyadic rational m*2^e, and that exact value is what an exact
        // element type receives from `from_f64` when the constant is not a twiddle it can recognise.
        let bits = x.to_bits();
        let exp = ((bits >> 52) & 0x7ff) as i64;
        let (mant, e) = if exp == 0 { (bits & ((1u64 << 52) - 1), -1074i64) } else { ((bits & ((1u64 << 52) - 1)) | (1u64 << 52), exp - 1075) };
        let mut v = mant % pr;
        if e >= 0 {
            v = mulmod(v, powmod(2, e as u64, pr), pr);
        } else {
            let inv2 = (pr + 1) / 2;
            v = mulmod(v, powmod(inv2, (-e) as u64, pr), pr);
        }
        if x < 0.0 {
            v = (pr - v) % pr;
        }
        LITERAL.with(|c| c.set(c.get() + 1));
        Ok(v)
    });
    match r {
        Ok(v) => Fp::new(v),
        Err(true) => {
            AMBIGUOUS.with(|c| c.set(c.get() + 1));
            panic!("VF-AMBIGUOUS: constant {:e} has two different exact meanings on the twiddle grid", x);
        }
        Err(false) => {
            UNDECODABLE.with(|c| c.borrow_mut().push(x));
            panic!("VF-UNDECODABLE: constant {:e} is outside the cyclotomic grid known to the exact oracle", x);
        }
    }
}

impl Add for Fp {
    type Output = Fp;
    #[inline]
    fn add(self, o: Fp) -> Fp {
        let p = p();
        let s = self.val() + o.val();
        Fp::new(if s >= p { s - p } else { s })
    }
}
impl Sub for Fp {
    type Output = Fp;
    #[inline]
    fn sub(self, o: Fp) -> Fp {
        let p = p();
        let (a, b) = (self.val(), o.val());
        Fp::new(if a >= b { a - b } else { a + p - b })
    }
}
impl Mul for Fp {
    type Output = Fp;
    #[inline]
    fn mul(self, o: Fp) -> Fp {
        Fp::new(mulmod(self.val(), o.val(), p()))
    }
}
impl Neg for Fp {
    type Output = Fp;
    #[inline]
    fn neg(self) -> Fp {
        {
            let a = self.val();
            Fp::new(if a == 0 { 0 } else { p() - a })
        }
    }
}
impl Div for Fp {
    type Output = Fp;
    fn div(self, o: Fp) -> Fp {
        DIVS.with(|c| c.set(c.get() + 1));
        let p = p();
        if o.val() == 0 {
            forbid("division by zero");
        }
        Fp::new(mulmod(self.val(), powmod(o.val(), p - 2, p), p))
    }
}
impl Rem for Fp {
    type Output = Fp;
    fn rem(self, _: Fp) -> Fp {
        forbid("Rem")
    }
}
impl Zero for Fp {
    fn zero() -> Fp {
        Fp::new(0)
    }
    fn is_zero(&self) -> bool {
        self.val() == 0
    }
}
impl One for Fp {
    fn one() -> Fp {
        Fp::new(1)
    }
}
impl Num for Fp {
    type FromStrRadixErr = ();
    fn from_str_radix(_: &str, _: u32) -> Result<Fp, ()> {
        forbid("from_str_radix")
    }
}
impl Signed for Fp {
    fn abs(&self) -> Fp {
        forbid("abs")
    }
    fn abs_sub(&self, _: &Fp) -> Fp {
        forbid("abs_sub")
    }
    fn signum(&self) -> Fp {
        forbid("signum")
    }
    fn is_positive(&self) -> bool {
        forbid("is_positive")
    }
    fn is_negative(&self) -> bool {
        forbid("is_negative")
    }
}
impl FromPrimitive for Fp {
    fn from_i64(n: i64) -> Option<Fp> {
        let p = p();
        Some(if n >= 0 { Fp::new(n as u64 % p) } else { Fp::new((p - ((-(n as i128)) as u64 % p)) % p) })
    }
    fn from_u64(n: u64) -> Option<Fp> {
        Some(Fp::new(n % p()))
    }
    fn from_f64(x: f64) -> Option<Fp> {
        Some(decode(x))
    }
    fn from_f32(x: f32) -> Option<Fp> {
        Some(decode(x as f64))
    }
}
impl ToPrimitive for Fp {
    fn to_i64(&self) -> Option<i64> {
        forbid("to_i64")
    }
    fn to_u64(&self) -> Option<u64> {
        forbid("to_u64")
    }
}

/// How a caught panic message from the generic code should be treated
pub fn classify_msg(msg: &str) -> &'static str {
    if msg.starts_with("VF-UNDECODABLE") {
        "undecodable"
    } else if msg.starts_with("VF-AMBIGUOUS") {
        "ambiguous"
    } else if msg.starts_with("VF-FABRICATED") {
        "fabricated"
    } else if msg.starts_with("VF-FORBIDDEN") {
        "forbidden"
    } else {
        "other"
    }
}

/// Exact DFT in the installed field. `dir_inverse` selects omega_n^(+jk).
/// Returns None when n does not divide L (cannot happen when `install` was given n).
pub fn exact_dft(x: &[C2], inverse: bool) -> Option<Vec<C2>> {
    let n = x.len() as u64;
    with_field(|f| {
        if n == 0 {
            return Some(vec![]);
        }
        if f.l % n != 0 {
            return None;
        }
        let p = f.p;
        let mut wn = f.omega.pow((f.l / n) as u128, p);
        if !inverse {
            wn = wn.conj(p); // exp(-2 pi i / n)
        }
        // table of powers
        let mut pw = Vec::with_capacity(n as usize);
        let mut w = C2::ONE;
        for _ in 0..n {
            pw.push(w);
            w = w.mul(wn, p);
        }
        let nn = n as usize;
        Some(
            (0..nn)
                .map(|k| {
                    let mut acc = C2 { re: 0, im: 0 };
                    let mut idx = 0usize;
                    for j in 0..nn {
                        acc = acc.add(x[j].mul(pw[idx], p), p);
                        idx += k;
                        if idx >= nn {
                            idx -= nn;
                        }
                    }
                    acc
                })
                .collect(),
        )
    })
}

/// Complete O(n log n) check of a claimed DFT output via a random linear functional:
/// sum_k X_k r^k must equal sum_j x_j (r^n - 1)/(omega_n^(-+j) r - 1). A wrong output survives with probability <= n/p^2.
pub fn functional_check(x: &[C2], out: &[C2], inverse: bool, seed: u64) -> Option<bool> {
    let n = x.len() as u64;
    with_field(|f| {
        if f.l % n != 0 {
            return None;
        }
        let p = f.p;
        let mut wn = f.omega.pow((f.l / n) as u128, p);
        if !inverse {
            wn = wn.conj(p);
        }
        let mut st = Stream(seed ^ 0xf00d);
        'retry: for _ in 0..8 {
            let r = C2 { re: st.below(p), im: st.below(p) };
            // lhs
            let mut lhs = C2 { re: 0, im: 0 };
            let mut rp = C2::ONE;
            for k in 0..n as usize {
                lhs = lhs.add(out[k].mul(rp, p), p);
                rp = rp.mul(r, p);
            }
            // rp = r^n now
            let num = rp.sub(C2::ONE, p);
            let mut rhs = C2 { re: 0, im: 0 };
            let mut wj = C2::ONE;
            for j in 0..n as usize {
                let den = wj.mul(r, p).sub(C2::ONE, p);
                if den == (C2 { re: 0, im: 0 }) {
                    continue 'retry;
                }
                rhs = rhs.add(x[j].mul(num, p).mul(den.inv(p), p), p);
                wj = wj.mul(wn, p);
            }
            return Some(lhs == rhs);
        }
        None
    })
}

#[cfg(test)]
mod tests {
    use super::*;
    #[test]
    fn field_basics() {
        let (p, l) = install(&[12, 7, 16], 1).unwrap();
        assert_eq!((p + 1) % l, 0);
        with_field(|f| {
            assert_eq!(f.omega.pow(f.l as u128, p), C2::ONE);
            assert_eq!(f.omega.pow((f.l / 4) as u128, p), C2 { re: 0, im: 1 });
        });
        // 0.5 = cos(2 pi /6) must decode to 1/2
        let half = Fp::from_f64(0.5).unwrap();
        assert_eq!((half + half).val(), 1);
        let x: Vec<C2> = (0..7).map(|i| C2 { re: i + 1, im: 2 * i }).collect();
        let y = exact_dft(&x, false).unwrap();
        assert_eq!(functional_check(&x, &y, false, 3), Some(true));
        let mut y2 = y.clone();
        y2[3].re = (y2[3].re + 1) % p;
        assert_eq!(functional_check(&x, &y2, false, 3), Some(false));
    }
}
