//! vf-engine library: generators, oracles and the case dispatcher, shared by the `vf-engine` binary and the fuzz targets.
#![allow(dead_code)]
pub mod checks;
pub mod checks2;
pub mod checks3;
pub mod checks4;
pub mod gfp;
pub mod numtypes;
pub mod dd;
pub mod exec;
pub mod gen;
pub mod guard;
pub mod plantext;
pub mod props;
pub mod refdft;
pub mod runner;
pub mod trees;
pub mod types;
pub mod fuzzdec;
