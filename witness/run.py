#!/usr/bin/env python3
"""C16: generated downstream programs, type-checked against /repo's public API (guard OFF).

  run.py check --tier quick|thorough     generate programs (Hypothesis, seeded), `cargo check` them, shrink failures
  run.py replay <replay.json>            re-check one saved program

Exit codes: 0 held / 1 violation (VIOLATION line + replay file) / 2 infrastructure problem (e.g. rustfft itself does not build).
"""
import hashlib
import json
import os
import shutil
import subprocess
import sys
import time

HERE = os.path.dirname(os.path.abspath(__file__))
VERIF = os.environ.get("VERIF_DIR", os.path.dirname(HERE))
sys.path.insert(0, HERE)
import catalogue  # noqa: E402

REPO = os.environ.get("VF_REPO", "/repo")
WORK = os.path.join(VERIF, "work", "witness")
TARGET = os.path.join(VERIF, "witness", "target")


def write_crate(programs):
    """programs: list of (bin_name, source)"""
    if os.path.isdir(WORK):
        shutil.rmtree(WORK)
    os.makedirs(os.path.join(WORK, "src", "bin"))
    with open(os.path.join(WORK, "Cargo.toml"), "w") as f:
        f.write('[package]\nname = "vf-witness"\nversion = "0.0.0"\nedition = "2021"\npublish = false\n\n'
                f'[dependencies]\nrustfft = {{ path = "{REPO}" }}\n\n[workspace]\n')
    for lock in (os.path.join(REPO, "Cargo.lock"), os.path.join(VERIF, "engine", "Cargo.lock")):
        if os.path.exists(lock):
            shutil.copy(lock, os.path.join(WORK, "Cargo.lock"))
            break
    for name, src in programs:
        with open(os.path.join(WORK, "src", "bin", name + ".rs"), "w") as f:
            f.write(src)


def cargo_check():
    """returns (ok_build_of_dependency, {bin_name: [error messages with line numbers]})"""
    env = dict(os.environ)
    env["CARGO_NET_OFFLINE"] = "true"
    env["CARGO_TARGET_DIR"] = TARGET
    env.pop("RUSTFLAGS", None)  # guard off: downstream users do not see the hooks
    p = subprocess.run(["cargo", "check", "--offline", "--bins", "--message-format=json", "--keep-going"],
                       cwd=WORK, env=env, capture_output=True, text=True)
    errors = {}
    dep_failed = False
    for line in p.stdout.splitlines():
        try:
            m = json.loads(line)
        except Exception:
            continue
        if m.get("reason") == "compiler-message" and m["message"].get("level") == "error":
            tgt = m.get("target", {})
            name = tgt.get("name", "?")
            if "bin" not in tgt.get("kind", []):
                dep_failed = True
                continue
            spans = m["message"].get("spans", [])
            line_no = min([s["line_start"] for s in spans if s.get("is_primary")] or [0])
            errors.setdefault(name, []).append((line_no, m["message"].get("message", ""), (m["message"].get("code") or {}).get("code")))
    if p.returncode != 0 and not errors:
        dep_failed = True
    return (not dep_failed), errors, p.stderr[-2000:]


def snippet_at(source, line_no):
    cur = None
    for i, l in enumerate(source.splitlines(), 1):
        if l.startswith("// --- snippet: "):
            cur = l[len("// --- snippet: "):].strip()
        if i >= line_no:
            break
    return cur


def replay_file(names, source, messages):
    h = hashlib.sha256(("\n".join(sorted(names))).encode()).hexdigest()[:16]
    d = os.path.join(VERIF, "replays")
    os.makedirs(d, exist_ok=True)
    path = os.path.join(d, f"C16-{h}.json")
    json.dump({"property": "C16", "snippets": names, "compiler_errors": messages, "program": source,
               "how_to_replay": f"./vf replay {path}"}, open(path, "w"), indent=1)
    return path


def check(tier, seed):
    t0 = time.time()
    from hypothesis import given, settings, strategies as st, seed as hseed, HealthCheck, Phase
    table = catalogue.snippets()
    names = sorted(table.keys())
    nprog = 24 if tier == "quick" else 200
    drawn = []

    @hseed(seed)
    @settings(max_examples=nprog, database=None, deadline=None, derandomize=False,
              suppress_health_check=list(HealthCheck), phases=[Phase.generate])
    @given(st.lists(st.sampled_from(names), min_size=1, max_size=len(names), unique=True))
    def draw(sub):
        drawn.append(list(sub))

    draw()
    programs = [("p_full", names)] + [(f"p{i:03d}", sub) for i, sub in enumerate(drawn)]
    # every snippet alone as well: exact attribution without shrinking, and a check of the catalogue itself
    programs += [(f"s_{i:03d}", [n]) for i, n in enumerate(names)]
    sources = {bn: catalogue.program(sub, table) for bn, sub in programs}
    write_crate([(bn, sources[bn]) for bn, _ in programs])
    ok, errors, stderr = cargo_check()
    if not ok:
        print("INCONCLUSIVE: rustfft itself (or the witness crate skeleton) does not build with the guard off; see below", file=sys.stderr)
        print(stderr, file=sys.stderr)
        return 2, None
    # attribute: failing snippets = snippets containing a primary error span
    failing = {}
    for bn, errs in errors.items():
        sub = dict(programs)[bn]
        for (ln, msg, code) in errs:
            sn = snippet_at(sources[bn], ln) or "?"
            failing.setdefault(sn, []).append(f"{code or ''} {msg}".strip())
    violations = []
    if failing:
        # shrink: the minimal failing program is the set of failing snippets; verify by re-checking exactly that program,
        # then delta-debug it down to single snippets that still fail on their own
        minimal = sorted(k for k in failing if k in table)
        single = []
        write_crate([(f"m{i:03d}", catalogue.program([n], table)) for i, n in enumerate(minimal)])
        ok2, errors2, _ = cargo_check()
        for i, n in enumerate(minimal):
            if f"m{i:03d}" in errors2:
                single.append(n)
        for n in (single or minimal):
            msgs = sorted(set(failing.get(n, [])))[:6]
            path = replay_file([n], catalogue.program([n], table), msgs)
            violations.append({"snippet": n, "errors": msgs, "replay": path})
            print(f"VIOLATION property=C16 replay={path}")
            print(f"  reason: downstream code using `{n}` no longer compiles: {msgs[0] if msgs else ''}")
    n_programs = len(programs)
    distinct = len({tuple(sub) for _, sub in programs})
    samples = [{"program": bn, "snippets": sub[:12] + (["..."] if len(sub) > 12 else [])} for bn, sub in programs[:4] + programs[25:28]]
    ev = {
        "property_id": "C16", "tier": tier, "seed": seed, "level": "exploration",
        "coverage": {
            "evaluations": n_programs,
            "distinct_nontrivial": distinct,
            "rule": (f"Downstream programs over a catalogue of {len(names)} API-use snippets written from the 6.4.1 public surface "
                     "(planners and their methods, the Fft/Length/Direction traits in method and UFCS call form, FftDirection variants/derives/Display/"
                     "opposite_direction by method and by path, FftNum bound implications and the blanket impl with a foreign type, every algorithm "
                     "constructor with typed arguments/results, every butterfly, Butterfly3::twiddle, direction_of, a downstream impl Fft with exactly "
                     "today's required methods, Send+Sync obligations for every public type, the num_complex/num_traits re-exports, README usage). "
                     f"Programs = the full catalogue, every snippet alone, and {nprog} Hypothesis-drawn subsets/orders (seeded); oracle = `cargo check` "
                     "of each program against /repo with the verification guard OFF; a failing program is reduced to the single snippets that fail on "
                     "their own. Non-trivial: a program naming >= 1 public item (all are); distinct = distinct snippet sequences."),
            "samples": samples,
            "exhaustive": False,
            "snippets_in_catalogue": len(names),
            "failing_snippets": sorted(failing.keys()),
            "violations_found": violations,
        },
        "assumptions": ["one catalogue stands for 'all downstream programs': uses not in the catalogue (e.g. inference-dependent code) are missed",
                        "purely additive API changes never fail it"],
        "wall_s": time.time() - t0,
        "violations": len(violations),
    }
    os.makedirs(os.path.join(VERIF, "evidence"), exist_ok=True)
    json.dump(ev, open(os.path.join(VERIF, "evidence", "C16.json"), "w"), indent=1)
    print(f"[C16] tier={tier} seed={seed} evaluations={n_programs} distinct_nontrivial={distinct} violations={len(violations)} wall={time.time()-t0:.1f}s")
    return (1 if violations else 0), ev


def replay(path):
    doc = json.load(open(path))
    write_crate([("replay", doc["program"])])
    ok, errors, stderr = cargo_check()
    if not ok:
        print("INCONCLUSIVE: rustfft itself does not build", file=sys.stderr)
        return 2
    if errors:
        print(f"VIOLATION property=C16 replay={path}")
        for (ln, msg, code) in errors.get("replay", [])[:5]:
            print(f"  reason: {code or ''} {msg}")
        return 1
    print(f"[C16] replay of {path} held")
    return 0


def main():
    if len(sys.argv) >= 2 and sys.argv[1] == "replay":
        sys.exit(replay(sys.argv[2]))
    tier = "quick"
    if "--tier" in sys.argv:
        tier = sys.argv[sys.argv.index("--tier") + 1]
    tier = os.environ.get("VERIF_TIER", tier) if "--tier" not in sys.argv else tier
    seed = int(os.environ.get("VERIF_SEED", "20260923"))
    if "--seed" in sys.argv:
        seed = int(sys.argv[sys.argv.index("--seed") + 1])
    code, _ = check(tier, seed)
    sys.exit(code)


if __name__ == "__main__":
    try:
        main()
    except SystemExit:
        raise
    except BaseException as e:  # an error of the harness is never a verdict
        import traceback
        traceback.print_exc()
        print(f"INCONCLUSIVE: witness harness error: {e}", file=sys.stderr)
        sys.exit(2)
