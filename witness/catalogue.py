"""API-use snippets written from the public surface of RustFFT 6.4.1 (C16).

Every snippet is one never-called function (generic in `T: rustfft::FftNum` where the item is generic) that names
public items in *call form* with typed arguments and typed results, using fully qualified paths only, so that the
snippets are independent of each other: a program is any subset of them, in any order.
A purely additive API change never breaks a snippet; a removed item, a changed parameter/result type, a tightened
bound, a changed receiver or a lost auto-trait does.
"""

BUTTERFLIES = [1, 2, 3, 4, 5, 6, 7, 8, 9, 11, 12, 13, 16, 17, 19, 23, 24, 27, 29, 31, 32]
ALGOS = ["Dft", "Radix4", "Radix3", "MixedRadix", "MixedRadixSmall", "GoodThomasAlgorithm",
         "GoodThomasAlgorithmSmall", "RadersAlgorithm", "BluesteinsAlgorithm"]
SIMD_PLANNERS = ["FftPlannerSse", "FftPlannerAvx", "FftPlannerNeon", "FftPlannerWasmSimd"]

A = "std::sync::Arc<dyn rustfft::Fft<T>>"
FWD = "rustfft::FftDirection::Forward"
INV = "rustfft::FftDirection::Inverse"


def snippets():
    s = {}

    def add(name, body):
        assert name not in s
        s[name] = body

    # ---- planners -------------------------------------------------------------------------------
    for p in ["FftPlanner", "FftPlannerScalar"]:
        add(f"planner_{p}", f"""
fn s_planner_{p}<T: rustfft::FftNum>() {{
    let mut p: rustfft::{p}<T> = rustfft::{p}::new();
    let a: {A} = p.plan_fft(8usize, {FWD});
    let b: {A} = p.plan_fft_forward(8usize);
    let c: {A} = p.plan_fft_inverse(8usize);
    let d: {A} = rustfft::{p}::<T>::plan_fft(&mut p, 3usize, {INV});
}}""")
        add(f"planner_{p}_concrete", f"""
fn s_planner_{p}_concrete() {{
    let mut p32 = rustfft::{p}::<f32>::new();
    let mut p64 = rustfft::{p}::<f64>::new();
    let f = p32.plan_fft_forward(1234);
    let mut buf = vec![rustfft::num_complex::Complex {{ re: 0.0f32, im: 0.0f32 }}; 1234];
    f.process(&mut buf);
    let g = p64.plan_fft(16, {INV});
    let mut buf64 = vec![rustfft::num_complex::Complex::<f64>::new(0.0, 1.0); 32];
    g.process(&mut buf64);
    let h = std::sync::Arc::clone(&g);
}}""")
    for p in SIMD_PLANNERS:
        add(f"planner_{p}", f"""
fn s_planner_{p}<T: rustfft::FftNum>() {{
    let r: Result<rustfft::{p}<T>, ()> = rustfft::{p}::new();
    if let Ok(mut p) = r {{
        let a: {A} = p.plan_fft(8usize, {FWD});
        let b: {A} = p.plan_fft_forward(8usize);
        let c: {A} = p.plan_fft_inverse(8usize);
    }}
}}""")
    for p in ["FftPlanner", "FftPlannerScalar"] + SIMD_PLANNERS:
        add(f"autotraits_{p}", f"""
fn s_autotraits_{p}<T: rustfft::FftNum>() {{
    fn need<X: Send + Sync>() {{}}
    need::<rustfft::{p}<T>>();
    need::<rustfft::{p}<f32>>();
    need::<rustfft::{p}<f64>>();
}}""")

    # ---- the Fft / Length / Direction traits ----------------------------------------------------------
    add("fft_trait_methods_dyn", f"""
fn s_fft_trait_methods_dyn<T: rustfft::FftNum>(f: &dyn rustfft::Fft<T>, a: &mut [rustfft::num_complex::Complex<T>], b: &mut [rustfft::num_complex::Complex<T>], c: &mut [rustfft::num_complex::Complex<T>], ro: &[rustfft::num_complex::Complex<T>]) {{
    let _: () = f.process(a);
    let _: () = f.process_with_scratch(a, c);
    let _: () = f.process_outofplace_with_scratch(a, b, c);
    let _: () = f.process_immutable_with_scratch(ro, b, c);
    let x: usize = f.get_inplace_scratch_len();
    let y: usize = f.get_outofplace_scratch_len();
    let z: usize = f.get_immutable_scratch_len();
    let l: usize = f.len();
    let d: rustfft::FftDirection = f.fft_direction();
}}""")
    add("fft_trait_methods_generic", f"""
fn s_fft_trait_methods_generic<T: rustfft::FftNum, F: rustfft::Fft<T>>(f: &F, a: &mut [rustfft::num_complex::Complex<T>], b: &mut [rustfft::num_complex::Complex<T>], c: &mut [rustfft::num_complex::Complex<T>], ro: &[rustfft::num_complex::Complex<T>]) {{
    rustfft::Fft::process(f, a);
    rustfft::Fft::process_with_scratch(f, a, c);
    rustfft::Fft::process_outofplace_with_scratch(f, a, b, c);
    rustfft::Fft::process_immutable_with_scratch(f, ro, b, c);
    let x: usize = rustfft::Fft::get_inplace_scratch_len(f);
    let y: usize = rustfft::Fft::get_outofplace_scratch_len(f);
    let z: usize = rustfft::Fft::get_immutable_scratch_len(f);
    let l: usize = rustfft::Length::len(f);
    let d: rustfft::FftDirection = rustfft::Direction::fft_direction(f);
}}""")
    add("fft_trait_supertraits", f"""
fn s_fft_trait_supertraits<T: rustfft::FftNum, F: rustfft::Fft<T> + ?Sized>(f: &F) {{
    fn need_len<X: rustfft::Length + ?Sized>(_: &X) {{}}
    fn need_dir<X: rustfft::Direction + ?Sized>(_: &X) {{}}
    fn need_ss<X: Send + Sync + ?Sized>(_: &X) {{}}
    need_len(f);
    need_dir(f);
    need_ss(f);
}}""")
    add("fft_trait_object_arc", f"""
fn s_fft_trait_object_arc<T: rustfft::FftNum>(a: {A}) {{
    fn need<X: Send + Sync + 'static>(_: X) {{}}
    let b = std::sync::Arc::clone(&a);
    let h = std::thread::spawn(move || b.len());
    need(a);
}}""")
    add("downstream_impl_fft", """
struct SDownstream { n: usize }
impl rustfft::Length for SDownstream { fn len(&self) -> usize { self.n } }
impl rustfft::Direction for SDownstream { fn fft_direction(&self) -> rustfft::FftDirection { rustfft::FftDirection::Forward } }
impl<T: rustfft::FftNum> rustfft::Fft<T> for SDownstream {
    fn process_with_scratch(&self, _buffer: &mut [rustfft::num_complex::Complex<T>], _scratch: &mut [rustfft::num_complex::Complex<T>]) {}
    fn process_outofplace_with_scratch(&self, _input: &mut [rustfft::num_complex::Complex<T>], _output: &mut [rustfft::num_complex::Complex<T>], _scratch: &mut [rustfft::num_complex::Complex<T>]) {}
    fn process_immutable_with_scratch(&self, _input: &[rustfft::num_complex::Complex<T>], _output: &mut [rustfft::num_complex::Complex<T>], _scratch: &mut [rustfft::num_complex::Complex<T>]) {}
    fn get_inplace_scratch_len(&self) -> usize { 0 }
    fn get_outofplace_scratch_len(&self) -> usize { 0 }
    fn get_immutable_scratch_len(&self) -> usize { 0 }
}
fn s_downstream_impl_fft() {
    let f: std::sync::Arc<dyn rustfft::Fft<f32>> = std::sync::Arc::new(SDownstream { n: 4 });
    let mut b = vec![rustfft::num_complex::Complex { re: 0.0f32, im: 0.0 }; 4];
    f.process(&mut b);
    let m = rustfft::algorithm::MixedRadix::new(std::sync::Arc::clone(&f), f);
}""")

    # ---- FftDirection --------------------------------------------------------------------------------
    add("direction_enum", """
fn s_direction_enum(d: rustfft::FftDirection) -> u8 {
    let e: rustfft::FftDirection = d; // Copy
    let f: rustfft::FftDirection = Clone::clone(&d);
    let same: bool = d == e && PartialEq::eq(&d, &f);
    fn need_eq<X: Eq + Copy + Clone + std::fmt::Debug + std::fmt::Display>(_: X) {}
    need_eq(d);
    let s1: String = format!("{}", d);
    let s2: String = format!("{:?}", d);
    match d {
        rustfft::FftDirection::Forward => 0,
        rustfft::FftDirection::Inverse => 1,
    }
}""")
    add("direction_opposite_method", """
fn s_direction_opposite_method(d: rustfft::FftDirection) {
    let o: rustfft::FftDirection = d.opposite_direction();
    let r: &rustfft::FftDirection = &d;
    let o2: rustfft::FftDirection = r.opposite_direction();
}""")
    add("direction_opposite_ufcs", """
fn s_direction_opposite_ufcs(d: rustfft::FftDirection) {
    let o: rustfft::FftDirection = rustfft::FftDirection::opposite_direction(&d);
    let v: Vec<rustfft::FftDirection> = [d, o].iter().map(rustfft::FftDirection::opposite_direction).collect();
}""")

    # ---- FftNum ----------------------------------------------------------------------------------------
    add("fftnum_implies_bounds", """
fn s_fftnum_implies_bounds<T: rustfft::FftNum>() {
    fn need<X: Copy + rustfft::num_traits::FromPrimitive + rustfft::num_traits::Signed + Sync + Send + std::fmt::Debug + 'static>() {}
    need::<T>();
}""")
    add("fftnum_std_floats", """
fn s_fftnum_std_floats() {
    fn need<X: rustfft::FftNum>() {}
    need::<f32>();
    need::<f64>();
}""")
    add("fftnum_blanket_foreign_type", """
mod s_foreign {
    use rustfft::num_traits::{FromPrimitive, Num, One, Signed, ToPrimitive, Zero};
    use std::ops::{Add, Div, Mul, Neg, Rem, Sub};
    #[derive(Copy, Clone, Debug, PartialEq)]
    pub struct Fixed(pub f64);
    impl Add for Fixed { type Output = Fixed; fn add(self, o: Fixed) -> Fixed { Fixed(self.0 + o.0) } }
    impl Sub for Fixed { type Output = Fixed; fn sub(self, o: Fixed) -> Fixed { Fixed(self.0 - o.0) } }
    impl Mul for Fixed { type Output = Fixed; fn mul(self, o: Fixed) -> Fixed { Fixed(self.0 * o.0) } }
    impl Div for Fixed { type Output = Fixed; fn div(self, o: Fixed) -> Fixed { Fixed(self.0 / o.0) } }
    impl Rem for Fixed { type Output = Fixed; fn rem(self, o: Fixed) -> Fixed { Fixed(self.0 % o.0) } }
    impl Neg for Fixed { type Output = Fixed; fn neg(self) -> Fixed { Fixed(-self.0) } }
    impl Zero for Fixed { fn zero() -> Fixed { Fixed(0.0) } fn is_zero(&self) -> bool { self.0 == 0.0 } }
    impl One for Fixed { fn one() -> Fixed { Fixed(1.0) } }
    impl Num for Fixed { type FromStrRadixErr = (); fn from_str_radix(_: &str, _: u32) -> Result<Fixed, ()> { Err(()) } }
    impl Signed for Fixed {
        fn abs(&self) -> Fixed { Fixed(self.0.abs()) }
        fn abs_sub(&self, o: &Fixed) -> Fixed { Fixed((self.0 - o.0).max(0.0)) }
        fn signum(&self) -> Fixed { Fixed(self.0.signum()) }
        fn is_positive(&self) -> bool { self.0 > 0.0 }
        fn is_negative(&self) -> bool { self.0 < 0.0 }
    }
    impl FromPrimitive for Fixed {
        fn from_i64(n: i64) -> Option<Fixed> { Some(Fixed(n as f64)) }
        fn from_u64(n: u64) -> Option<Fixed> { Some(Fixed(n as f64)) }
        fn from_f64(n: f64) -> Option<Fixed> { Some(Fixed(n)) }
    }
    impl ToPrimitive for Fixed {
        fn to_i64(&self) -> Option<i64> { Some(self.0 as i64) }
        fn to_u64(&self) -> Option<u64> { Some(self.0 as u64) }
    }
}
fn s_fftnum_blanket_foreign_type() {
    fn need<X: rustfft::FftNum>() {}
    need::<s_foreign::Fixed>();
    let mut p = rustfft::FftPlanner::<s_foreign::Fixed>::new();
    let f = p.plan_fft_forward(12);
    let mut b = vec![rustfft::num_complex::Complex { re: s_foreign::Fixed(1.0), im: s_foreign::Fixed(0.0) }; 12];
    f.process(&mut b);
    let d = rustfft::algorithm::Dft::<s_foreign::Fixed>::new(5, rustfft::FftDirection::Forward);
    let b4 = rustfft::algorithm::butterflies::Butterfly4::<s_foreign::Fixed>::new(rustfft::FftDirection::Inverse);
    let r4 = rustfft::algorithm::Radix4::<s_foreign::Fixed>::new(64, rustfft::FftDirection::Forward);
    let mut ps = rustfft::FftPlannerScalar::<s_foreign::Fixed>::new();
    let g = ps.plan_fft_inverse(7);
}""")

    # ---- algorithms -------------------------------------------------------------------------------------
    ctor = {
        "Dft": f"rustfft::algorithm::Dft::new(5usize, {FWD})",
        "Radix4": f"rustfft::algorithm::Radix4::new(64usize, {FWD})",
        "Radix3": f"rustfft::algorithm::Radix3::new(27usize, {FWD})",
        "MixedRadix": "rustfft::algorithm::MixedRadix::new(a.clone(), a.clone())",
        "MixedRadixSmall": "rustfft::algorithm::MixedRadixSmall::new(a.clone(), a.clone())",
        "GoodThomasAlgorithm": "rustfft::algorithm::GoodThomasAlgorithm::new(a.clone(), a.clone())",
        "GoodThomasAlgorithmSmall": "rustfft::algorithm::GoodThomasAlgorithmSmall::new(a.clone(), a.clone())",
        "RadersAlgorithm": "rustfft::algorithm::RadersAlgorithm::new(a.clone())",
        "BluesteinsAlgorithm": "rustfft::algorithm::BluesteinsAlgorithm::new(5usize, a.clone())",
    }
    for name in ALGOS:
        add(f"algo_{name}", f"""
fn s_algo_{name}<T: rustfft::FftNum>(a: {A}) {{
    let x: rustfft::algorithm::{name}<T> = {ctor[name]};
    let l: usize = rustfft::Length::len(&x);
    let d: rustfft::FftDirection = rustfft::Direction::fft_direction(&x);
    let s: usize = rustfft::Fft::<T>::get_inplace_scratch_len(&x);
    let obj: {A} = std::sync::Arc::new(x);
}}""")
        add(f"autotraits_{name}", f"""
fn s_autotraits_{name}<T: rustfft::FftNum>() {{
    fn need<X: Send + Sync + 'static>() {{}}
    need::<rustfft::algorithm::{name}<T>>();
}}""")
    add("algo_Radix4_with_base", f"""
fn s_algo_Radix4_with_base<T: rustfft::FftNum>(a: {A}) {{
    let x: rustfft::algorithm::Radix4<T> = rustfft::algorithm::Radix4::new_with_base(2u32, a);
}}""")
    add("algo_Radix3_with_base", f"""
fn s_algo_Radix3_with_base<T: rustfft::FftNum>(a: {A}) {{
    let x: rustfft::algorithm::Radix3<T> = rustfft::algorithm::Radix3::new_with_base(2u32, a);
}}""")
    add("algo_concrete_doc_examples", """
fn s_algo_concrete_doc_examples() {
    let mut buffer = vec![rustfft::num_complex::Complex { re: 0.0f32, im: 0.0f32 }; 1201];
    let mut planner = rustfft::FftPlanner::new();
    let inner_fft = planner.plan_fft_forward(1200);
    let fft = rustfft::algorithm::RadersAlgorithm::new(inner_fft);
    rustfft::Fft::process(&fft, &mut buffer);
    let inner2 = planner.plan_fft_forward(4096);
    let b = rustfft::algorithm::BluesteinsAlgorithm::new(1201, inner2);
    let d = rustfft::algorithm::Dft::new(123, rustfft::FftDirection::Forward);
    let mut buf2 = vec![rustfft::num_complex::Complex { re: 0.0f64, im: 0.0f64 }; 123];
    rustfft::Fft::process(&d, &mut buf2);
}""")

    # ---- butterflies --------------------------------------------------------------------------------------
    for n in BUTTERFLIES:
        add(f"butterfly_{n}", f"""
fn s_butterfly_{n}<T: rustfft::FftNum>() {{
    let b: rustfft::algorithm::butterflies::Butterfly{n}<T> = rustfft::algorithm::butterflies::Butterfly{n}::new({INV});
    let l: usize = rustfft::Length::len(&b);
    let d: rustfft::FftDirection = rustfft::Direction::fft_direction(&b);
    fn need<X: Send + Sync + 'static>(_: &X) {{}}
    need(&b);
    let obj: {A} = std::sync::Arc::new(b);
}}""")
    add("butterfly_3_twiddle_and_direction_of", """
fn s_butterfly_3_twiddle_and_direction_of<T: rustfft::FftNum>() {
    let b: rustfft::algorithm::butterflies::Butterfly3<T> = rustfft::algorithm::butterflies::Butterfly3::new(rustfft::FftDirection::Forward);
    let t: rustfft::num_complex::Complex<T> = b.twiddle;
    let c: rustfft::algorithm::butterflies::Butterfly3<T> = rustfft::algorithm::butterflies::Butterfly3::direction_of(&b);
}""")
    add("butterfly_6_direction_of", """
fn s_butterfly_6_direction_of<T: rustfft::FftNum>() {
    let b: rustfft::algorithm::butterflies::Butterfly6<T> = rustfft::algorithm::butterflies::Butterfly6::new(rustfft::FftDirection::Forward);
    let c: rustfft::algorithm::butterflies::Butterfly6<T> = rustfft::algorithm::butterflies::Butterfly6::direction_of(&b);
}""")
    add("butterfly_length_direction_any_t", """
fn s_butterfly_length_direction_any_t<X>(b: &rustfft::algorithm::butterflies::Butterfly8<X>) {
    // Length and Direction are implemented for butterflies without any bound on the element type
    let l: usize = rustfft::Length::len(b);
    let d: rustfft::FftDirection = rustfft::Direction::fft_direction(b);
}""")

    # ---- re-exports ---------------------------------------------------------------------------------------
    add("reexport_num_complex", """
fn s_reexport_num_complex() {
    let c: rustfft::num_complex::Complex<f32> = rustfft::num_complex::Complex::new(1.0, 2.0);
    let d: rustfft::num_complex::Complex32 = c.conj();
    let e: rustfft::num_complex::Complex64 = rustfft::num_complex::Complex { re: 1.0f64, im: 0.0f64 };
    let n: f64 = e.norm_sqr();
}""")
    add("reexport_num_traits", """
fn s_reexport_num_traits() {
    let z: f64 = rustfft::num_traits::Zero::zero();
    let o: f32 = rustfft::num_traits::One::one();
    let x: Option<f32> = rustfft::num_traits::FromPrimitive::from_usize(3usize);
    fn need<X: rustfft::num_traits::Signed + rustfft::num_traits::Num>() {}
    need::<f64>();
}""")
    add("readme_usage", """
fn s_readme_usage() {
    use rustfft::{FftPlanner, num_complex::Complex};
    let mut planner = FftPlanner::new();
    let fft = planner.plan_fft_forward(1234);
    let mut buffer = vec![Complex{ re: 0.0f32, im: 0.0f32 }; 1234];
    fft.process(&mut buffer);
    let mut scratch = vec![Complex{ re: 0.0f32, im: 0.0f32 }; fft.get_inplace_scratch_len()];
    fft.process_with_scratch(&mut buffer, &mut scratch);
    use rustfft::{Fft, FftDirection, FftNum, Length, Direction, FftPlannerScalar, FftPlannerSse, FftPlannerAvx, FftPlannerNeon, FftPlannerWasmSimd};
    use rustfft::algorithm::{Dft, Radix4, Radix3, MixedRadix, MixedRadixSmall, GoodThomasAlgorithm, GoodThomasAlgorithmSmall, RadersAlgorithm, BluesteinsAlgorithm};
    use rustfft::algorithm::butterflies::{Butterfly1, Butterfly2, Butterfly3, Butterfly4, Butterfly5, Butterfly6, Butterfly7, Butterfly8, Butterfly9, Butterfly11, Butterfly12, Butterfly13, Butterfly16, Butterfly17, Butterfly19, Butterfly23, Butterfly24, Butterfly27, Butterfly29, Butterfly31, Butterfly32};
}""")
    return s


PRELUDE = "#![allow(dead_code, unused_variables, unused_imports, unused_mut, non_snake_case)]\n"


def program(names, table=None):
    table = table or snippets()
    parts = [PRELUDE]
    for n in names:
        parts.append(f"// --- snippet: {n}\n" + table[n].strip() + "\n")
    parts.append("fn main() {}\n")
    return "\n".join(parts)
