#!/usr/bin/env python3
"""Assembles /verif/seeded/<id>/ from the sub-agents' deliverables, the confirmation logs and the check-run logs."""
import json, os, re, shutil, sys, glob
SRC = "/tmp/seedwork"
OUT = "/verif/seeded"
needs = json.load(open("/verif/tools/seed_needs.json"))
runs = {}   # seed -> list of (check, exit, violations, seconds, reason)
for log in sorted(glob.glob("/verif/seeded/_runs/*.log")):
    for line in open(log):
        m = re.match(r"(C\d\d[A-Z]) (C\d\d) exit=(\d+) violations=(\d+) t=(\d+)s ::\s*(.*)", line.strip())
        if m:
            runs.setdefault(m.group(1), []).append({"check": m.group(2), "tier": "quick" if "thorough" not in log else "thorough", "exit": int(m.group(3)),
                "violation_lines": int(m.group(4)), "seconds": int(m.group(5)), "first_reason": m.group(6).replace("reason:", "").strip()[:300], "log": os.path.basename(log)})
os.makedirs(OUT, exist_ok=True)
for sid in sorted(needs):
    pid, v = sid[:3], sid[3]
    src = f"{SRC}/out{ {'A':'','B':'','C':'3','D':'3','E':'4','F':'4'}[v] }-{pid}/{v}"
    if not os.path.isdir(src):
        continue
    dst = f"{OUT}/{sid}"
    os.makedirs(dst, exist_ok=True)
    for f in ("patch.diff", "demo.rs", "notes.md"):
        if os.path.exists(f"{src}/{f}"):
            shutil.copy(f"{src}/{f}", f"{dst}/{f}")
    verdict = "?"
    if os.path.exists(f"{src}/confirm.log"):
        t = open(f"{src}/confirm.log").read()
        m = re.search(r"VERDICT (\S+)", t)
        verdict = m.group(1) if m else "?"
        sm = re.search(r"suite: passed failed = (\d+) (\d+)", t)
    else:
        sm = None
    rr = runs.get(sid, [])
    # later logs supersede earlier ones for the same check (checks were strengthened between batches)
    last = {}
    for r in rr:
        last[r["check"]] = r
    detected = sorted(c for c, r in last.items() if r["exit"] == 1)
    missed = sorted(c for c, r in last.items() if r["exit"] == 0)
    meta = {
        "id": sid,
        "property_broken": pid,
        "origin": "written by an independent sub-agent that was given only the property text and a scratch worktree",
        "what_it_is_and_what_it_needs_to_manifest": needs[sid],
        "confirmed_by_me": {
            "how": "tools/confirm_seed.sh in a scratch worktree under /tmp: git apply; cargo test --workspace --no-fail-fast --offline (unedited suite); demo.rs copied to tests/ and run with the patch (must fail) and without (must pass)",
            "verdict": verdict,
            "suite_with_patch": (f"{sm.group(1)} passed, {sm.group(2)} failed (181 unit + 4 integration + 17 doctests)" if sm else "see confirm.log"),
            "demo": "fails with the patch, passes without it" if verdict == "ok" else verdict,
        },
        "checks_run_against_it": rr,
        "detected_by": detected,
        "not_detected_by": missed,
    }
    if sid == "C16A" or sid == "C16B":
        meta["confirmed_by_me"]["how"] = "the demo is a downstream program: it fails to COMPILE with the patch and passes without; suite as above"
    json.dump(meta, open(f"{dst}/meta.json", "w"), indent=1)
    print(sid, verdict, "detected by", detected, "missed by", missed)
