#!/bin/bash
# usage: try_seed.sh <patch.diff> <tier> Cxx [Cyy ...]
# Applies a seeded change to /repo, runs the named checks, and reverts /repo straight afterwards.
# Evidence files are restored afterwards (they must describe the unchanged tree).
set -u
patch="$1"; tier="$2"; shift 2
cd /verif
if ! git -C /repo diff --quiet; then echo "/repo is dirty; refusing"; exit 2; fi
git -C /repo apply "$patch" || { echo "patch does not apply"; exit 2; }
tmp=$(mktemp -d /tmp/evsave.XXXX); cp -a evidence/. "$tmp"/ 2>/dev/null
for p in "$@"; do
  out=$(./vf check "$p" --tier "$tier" 2>&1); code=$?
  n=$(echo "$out" | grep -c "^VIOLATION")
  echo "$p exit=$code violations=$n :: $(echo "$out" | grep -m1 'reason:' | cut -c1-300)"
done
git -C /repo checkout -- .
rm -rf evidence; mkdir evidence; cp -a "$tmp"/. evidence/; rm -rf "$tmp"
# replays produced against a seeded tree are not kept
git -C /verif status --short replays | awk '{print $2}' | xargs -r rm -f
