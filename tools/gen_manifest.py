#!/usr/bin/env python3
"""Writes /verif/MANIFEST.json from the table below (kept in one place so that it stays valid)."""
import json, os, subprocess
HERE = os.path.dirname(os.path.dirname(os.path.abspath(__file__)))

def hook_commits():
    try:
        out = subprocess.check_output(["git", "-C", "/repo", "log", "--format=%H %s"], text=True)
        return [l.split()[0] for l in out.splitlines() if "verif hook" in l]
    except Exception:
        return []

CHECKS = {
 # id: (technique, level text, level note, design ref)
 "C01": ("proptest + bounded-exhaustive enumeration against an independent double-double reference DFT (complete impulse basis, dense sweeps, all primes, structured families); exact GF(p^2) differential for the portable code",
         "Generated-input search: the whole impulse basis pins the transform matrix for every n<=128 (quick) / 512 (thorough); every n<=512/4096 is swept with 6 vectors x 4 planners x 4 entry points, every n<=8192/65536 and every prime<=2^15/2^18 with one vector on the concrete planners, ~50 landmark lengths up to 2^17/2^20, every n<=512/4096 again on planners with a minimal history (opposite direction planned first), thousands of structured lengths up to 2^15/2^20 are sampled; each output is compared with an independent reference within 4*B; the portable code is additionally decided exactly in GF(p^2). Exploration, not proof: lengths and inputs outside the generated set are not covered.",
         "Trusts the engine's own reference FFT (self-checked against a naive double-double DFT every run) and the stated input domain (finite, no overflow).", "3/C01"),
 "C02": ("proptest + enumeration: relative L2 error against an independent double-double / f64 reference, compared with the stated bound 16*eps*log2(2n) itself",
         "Every n<=1024 (quick) / 4096 (thorough) x all planners/types/directions with three dense distributions and a rotating structured family, the impulse basis for n<=64, and thousands of proptest-drawn cases weighted towards Bluestein/Rader primes and long radix chains up to 2^15 / 2^20 (plus primes near 10^6 in thorough), including dense vectors scaled by exact powers of two to both ends of the normal range (judged after exact rescaling). The worst observed error/bound ratio is reported (about 0.3 today).",
         "Reference precision: f64 for f32 results, double-double for f64 results. An accuracy regression that stays below the bound does not break the property and is only visible as a moved ratio.", "3/C02"),
 "C03": ("guard-page allocator (mmap + PROT_NONE pages flush against every caller buffer) under enumerated and proptest-drawn call shapes, on an optimised build and on a debug-assertion build; crash = violation with subprocess shrinking",
         "Every n<=1024/4096 (plus ~70/110 landmark lengths up to 2^20/2^22 and every Rader prime up to 2^19/2^21 on AVX, 2^17/2^19 portable) x planners x types x directions x entry points x chunk counts 1..8 with scratch of exactly the advertised length runs with all caller buffers guard-paged in both orientations and once half an element off a page boundary (weakest legal alignment); ill-shaped variants must panic, never fault; the debug-assertion build turns index errors of the unsafe accessors into classified panics. Thousands of structured lengths (all AVX row residues) are sampled.",
         "Guard pages see accesses past the flush end of a caller buffer; the instance's own tables and process()'s internal Vec are covered by the debug-assertion build only. Non-address UB is out of reach.", "3/C03"),
 "C04": ("bounded-exhaustive enumeration of lengths (fresh and reused planners) + plan-only sweep through the plan-report hook + proptest structured large lengths",
         "Every n in 0..8192 (quick) / 0..65536 (thorough) is planned and constructed on all four planners, both types and directions, on fresh planners and on planners reused over windows of 256 lengths; plans are designed (not built) for every n up to 2^20/2^22 and their length recomputed independently. Exhaustive over the stated ranges.",
         "Lengths above the bounds are not explored; the plan-only part trusts the plan-report hook.", "3/C04"),
 "C05": ("operation-counting element type (exact, input-independent counts) enumerated over lengths and over long planning histories on one planner; construction hook recording every naive DFT the library builds + independent parser of the plan-report hook for the structural clause; enumeration of advertised scratch lengths (fresh planners and (M,p) histories)",
         "Exact add/sub/mul counts of the portable planned transform for every n<=8192/32768 on all entry points and three inputs (must be identical and <= 64 n log2 n), and for every transform returned along ascending/descending/prime-neighbourhood/shuffled histories of up to thousands of requests on ONE planner; building the plan of every n<=16384/65536 on all four planners must not construct a naive DFT above 32 (construction hook), and every planner's plan text for every n<=2^20/2^22 is parsed for naive nodes; all advertised scratch lengths <= 12n+64 on fresh planners and after (M,p) histories; the work clause is repeated with a 256-byte counting element and on safe primes / Cunningham chains and their small multiples up to 2^18/2^19.",
         "For SSE/AVX the work clause itself cannot be counted (SIMD code does not accept a counting type); the no-naive-node clause is decided on constructed Dft instances (hook) in the built range and on the reported plan beyond it.", "3/C05"),
 "C06": ("metamorphic relations (inverse(forward(x)) = n*x, inverse = conj.forward.conj) over enumerated and proptest-drawn lengths, planning orders and entry-point pairs",
         "Oracle-free round trips for every n<=1536/4096 in all three planning orders, every prime up to 2^14/2^17 and thousands of structured lengths up to 2^18/2^22, tolerance 2.5*B.",
         "Errors symmetric in both directions cancel here (C01 covers them).", "3/C06"),
 "C07": ("differential (k-chunk call vs single-chunk calls, tolerance) + metamorphic isolation (other chunks replaced by NaN/Inf, bitwise) over enumerated and proptest-drawn cases",
         "Every n<=1024/2048 x planners x types x directions x 4 entry points with chunk counts 2..8 (and 9..17 for short transforms and in the sampled part), the k-chunk call given exactly the advertised scratch or an oversized one (2x, one per chunk, +4n), also on transforms from planners with a minimal history, plus thousands of structured lengths; isolation is decided bit-for-bit with NaN taint.",
         "Bitwise isolation assumes identical code paths for identical chunk positions (true by construction of the test).", "3/C07"),
 "C08": ("metamorphic: scratch/output initial contents (NaN, +-Inf, huge) and scratch length varied against a baseline call, outputs compared bit-for-bit, NaN taint",
         "Every n<=2048/3000 x planners x types x directions x the three explicit-scratch entry points with exact advertised scratch (must not panic) and a rotating grid of slack (+1, +17, 2x, one scratch per chunk, +4n) x fills x chunk counts 1..9; thousands of structured lengths.",
         "Assumes determinism of a transform for identical inputs (C11).", "3/C08"),
 "C09": ("bounded-exhaustive call-shape matrix with the verdict computed from the property text, catch_unwind oracle, guard-paged buffers, on optimised and debug-assertion builds",
         "For every transform with n<=48/128 the full product of data/output/scratch lengths, one-dimension-at-a-time up to 256/1024, and sampled structured lengths: well-shaped calls never panic and transform every chunk, ill-shaped calls always panic, and a well-shaped call right after each failed call on the same instance completes.",
         "n=0 and empty data are outside the property's wording and not judged.", "3/C09"),
 "C10": ("model-based generation of planning histories: bounded-exhaustive sequences (length<=3) over request pools derived from each target's own plan, proptest-drawn sequences (length<=12) over divisor lattices; every returned transform judged against the reference DFT; twin-planner bitwise differential",
         "All sequences of <=3 related requests over derived pools on the Scalar/Sse/Avx planners, (M,p) pairs continued with multiples of p, neighbour histories [p-1,p], [(p-1)/2,p-1,p], [p,2p,2p+1] for every prime up to 600/4000, window-fill histories and thousands of random histories on all four; every transform of a history must satisfy C01/C02/C06 after the planner is dropped (the last request through all four entry points with exactly the advertised scratch), a twin planner must agree bit-for-bit, and 'plan lifetime' histories in which the caller drops each transform before the next request (lengths up to 2^20/2^23) must keep returning correct transforms.",
         "Pools are derived with the plan-report hook; histories outside the pools/lattices are not explored.", "3/C10"),
 "C11": ("stress generation: isolated-call reference vs call histories and 16 threads sharing one instance on adjacent sub-slices of one allocation, bitwise comparison; compile-time Send/Sync obligations",
         "For ~240 sampled transforms: 16 threads making the FIRST calls on a never-used instance simultaneously (cold start, 3 fresh instances per case), a single-thread history with interleaved ill-shaped calls (caught panics, also on a thread that ends), and 16 threads x hundreds/thousands of rounds of mixed entry points, chunk counts and magnitudes (down to subnormals) must all reproduce isolated single calls bit-for-bit. Brute-force exploration of schedules only.",
         "The harness does not own the scheduler: a race needing a rare interleaving can survive; no structural proof is attempted by this technique family.", "3/C11"),
 "C12": ("bounded-exhaustive enumeration of constructor trees (depth<=2) + length-directed random trees (proptest), each run through the C01/C03/C07/C08/C09 call-level oracles and the exact GF(p^2) oracle",
         "Every depth<=1 tree over leaves of length 1..32 and the stated depth-2 family within the length caps, every constructor over the transform each concrete planner returns for every length up to 600/2000, ~150/250 constructed large trees (composite length 30 000..300 000/1 200 000, every constructor kind), plus thousands of random trees up to depth 4 / length 20000; construction inside documented preconditions must not panic and the composite must satisfy the call-level checks.",
         "Preconditions are re-checked on the built children; the *Small constructors' asserts are treated as documented preconditions.", "3/C12"),
 "C13": ("exhaustive configuration matrix (4 compiled feature sets x 7 run-time capability masks x 2 types), each running the C04/C01/C02/C03 generators on the automatic and dedicated planners",
         "All 56 (configuration, type) pairs: chosen planner equals the documented fallback chain, dedicated planners return Err exactly when unavailable, and the transforms pass the planning, numeric and guard-page checks.",
         "Lower capability levels are emulated decisions (masked feature detection), not emulated silicon.", "3/C13"),
 "C14": ("exact differential testing in a finite field (Complex<GF(p)> = GF(p^2), bit-exact decoding of twiddle constants) + double-double / tagged / newtype element types, enumerated over lengths and proptest-drawn structured lengths",
         "Every n<=1024/4096 and structured lengths to 8192/20000 through FftPlanner/FftPlannerScalar with a prime-field element type must equal the DFT exactly, use no non-ring method, no division while processing and no element fabricated from raw bytes (the field element's representation is sealed: zeroed/uninitialised/reinterpreted words are not elements); SIMD planners must decline every foreign type.",
         "Decides the portable generic code only; constants that cannot be decoded make a case 'not judged'.", "3/C14"),
 "C15": ("bitwise before/after comparison of the input + PROT_READ input mappings over enumerated and proptest-drawn well- and ill-shaped immutable calls",
         "Every n<=768/4096 x planners x types x directions x chunk counts 1..8, the ill-shaped immutable shapes, the same range on transforms from planners with history (opposite direction and a multiple planned first), and thousands of structured lengths; half of the cases hold the input in a read-only mapping.",
         "Also run on the debug-assertion build and, for n<=160/512, on an unoptimised (opt-level 0) build, where a write through the shared input reference is executed literally instead of being optimised away.", "3/C15"),
}
NOT_YET = {}
CHECKS["C16"] = ("Hypothesis-generated downstream programs (subsets/orders of a 6.4.1 API-use snippet catalogue) with the compiler's type check against /repo (guard off) as the oracle; failures reduced to single snippets",
         "The full catalogue, every snippet alone and 24 (quick) / 200 (thorough) generated subsets are type-checked against the current tree; a changed signature, bound, receiver, removed item or lost auto-trait fails the snippet that names it.",
         "One catalogue stands for all downstream programs; additive changes never fail it.", "3/C16")

def main():
    props = [json.loads(l) for l in open(os.path.join(HERE, "properties.jsonl"))]
    checks = []
    na = []
    for p in props:
        i = p["id"]
        if i in CHECKS:
            tech, text, note, ref = CHECKS[i]
            checks.append({
                "property_id": i,
                "quick_cmd": f"./vf check {i} --tier quick",
                "thorough_cmd": f"./vf check {i} --tier thorough",
                "evidence_file": f"evidence/{i}.json",
                "replay_cmd_template": "./vf replay {path}",
                "engine": "witness" if i == "C16" else "vf-engine",
                "level_claimed": {"category": "exploration", "text": text, "design_ref": f"DESIGN.md section {ref}"},
                "level_note": note,
                "technique": tech,
            })
        else:
            na.append({"property_id": i, "reason": NOT_YET.get(i, "check not built yet in this revision (in progress; see DESIGN.md section 3 for the planned generated-input check)")})
    m = {
        "version": 1,
        "setup_cmd": "./vf setup",
        "hooks": {
            "guard": "--cfg rustfft_verif",
            "enable": "engine/.cargo/config.toml sets build.rustflags = [\"--cfg\", \"rustfft_verif\"]; every check rebuilds /repo through the engine crate's path dependency",
            "baseline_off_cmd": "cd /repo && cargo test --workspace --no-fail-fast --offline",
            "source_commits": hook_commits(),
            "add_only": True,
        },
        "engines": [
            {"name": "witness", "path": "witness/", "serves_properties": ["C16"],
             "kind_free_text": "Python + Hypothesis: generates downstream Rust programs from a snippet catalogue, oracle = cargo check against /repo with the guard off"},
            {"name": "vf-engine", "path": "engine/", "serves_properties": sorted(k for k in CHECKS.keys() if k != "C16"),
             "kind_free_text": "Rust binary: proptest-driven generators + bounded-exhaustive enumeration, explicit oracles (double-double reference DFT, exact GF(p^2) DFT, metamorphic relations, guard-page allocator), 16 worker subprocesses, shrinking to JSON replay files"},
        ],
        "checks": checks,
        "not_applicable": na,
        "notes": "Exit codes of every command: 0 held / 1 violation (VIOLATION line + replay file) / 2 infrastructure problem or watchdog (inconclusive, never a violation). VERIF_SEED selects the seed (default 20260923).",
    }
    if not na:
        m["not_applicable"] = []
    json.dump(m, open(os.path.join(HERE, "MANIFEST.json"), "w"), indent=1)
    print("wrote MANIFEST.json:", len(checks), "checks,", len(na), "not claimed")

if __name__ == "__main__":
    main()
