#!/usr/bin/env python3
"""Writes /verif/MANIFEST.json from the table below (kept in one place so that it stays valid)."""
import json, os, subprocess
HERE = os.path.dirname(os.path.dirname(os.path.abspath(__file__)))

def hook_commits():
    try:
        out = subprocess.check_output(["git", "-C", "/repo", "log", "--format=%H %s"], text=True)
        return [l.split()[0] for l in out.splitlines() if "verif hook" in l]
    except Exception:
        return []

CHECKS = {
 # id: (technique, level text, level note, design ref)
 "C01": ("proptest + bounded-exhaustive enumeration against an independent double-double reference DFT (complete impulse basis, dense sweep, structured families); exact GF(p^2) differential for the portable code",
         "Generated-input search: the whole impulse basis pins the transform matrix for every n<=128 (quick) / 512 (thorough), every n<=512/4096 is swept with 6 vectors x 4 planners x 4 entry points, and thousands of structured lengths up to 2^15/2^20 are sampled; each output is compared with an independent reference within 4*B. Exploration, not proof: lengths and inputs outside the generated set are not covered.",
         "Trusts the engine's own reference FFT (self-checked against a naive double-double DFT every run) and the stated input domain (finite, no overflow).", "3/C01"),
 "C04": ("bounded-exhaustive enumeration of lengths (fresh and reused planners) + plan-only sweep through the plan-report hook + proptest structured large lengths",
         "Every n in 0..4096 (quick) / 0..65536 (thorough) is planned and constructed on all four planners, both types and directions, on fresh planners and on planners reused over windows of 256 lengths; plans are designed (not built) for every n up to 2^18/2^22 and their length recomputed independently. Exhaustive over the stated ranges.",
         "Lengths above the bounds are not explored; the plan-only part trusts the plan-report hook.", "3/C04"),
}
NOT_YET = {}

def main():
    props = [json.loads(l) for l in open(os.path.join(HERE, "properties.jsonl"))]
    checks = []
    na = []
    for p in props:
        i = p["id"]
        if i in CHECKS:
            tech, text, note, ref = CHECKS[i]
            checks.append({
                "property_id": i,
                "quick_cmd": f"./vf check {i} --tier quick",
                "thorough_cmd": f"./vf check {i} --tier thorough",
                "evidence_file": f"evidence/{i}.json",
                "replay_cmd_template": "./vf replay {path}",
                "engine": "vf-engine",
                "level_claimed": {"category": "exploration", "text": text, "design_ref": f"DESIGN.md section {ref}"},
                "level_note": note,
                "technique": tech,
            })
        else:
            na.append({"property_id": i, "reason": NOT_YET.get(i, "check not built yet in this revision (in progress; see DESIGN.md section 3 for the planned generated-input check)")})
    m = {
        "version": 1,
        "setup_cmd": "./vf setup",
        "hooks": {
            "guard": "--cfg rustfft_verif",
            "enable": "engine/.cargo/config.toml sets build.rustflags = [\"--cfg\", \"rustfft_verif\"]; every check rebuilds /repo through the engine crate's path dependency",
            "baseline_off_cmd": "cd /repo && cargo test --workspace --no-fail-fast --offline",
            "source_commits": hook_commits(),
            "add_only": True,
        },
        "engines": [
            {"name": "vf-engine", "path": "engine/", "serves_properties": sorted(CHECKS.keys()),
             "kind_free_text": "Rust binary: proptest-driven generators + bounded-exhaustive enumeration, explicit oracles (double-double reference DFT, exact GF(p^2) DFT, metamorphic relations, guard-page allocator), 16 worker subprocesses, shrinking to JSON replay files"},
        ],
        "checks": checks,
        "not_applicable": na,
        "notes": "Exit codes of every command: 0 held / 1 violation (VIOLATION line + replay file) / 2 infrastructure problem or watchdog (inconclusive, never a violation). VERIF_SEED selects the seed (default 20260923).",
    }
    if not na:
        m["not_applicable"] = []
    json.dump(m, open(os.path.join(HERE, "MANIFEST.json"), "w"), indent=1)
    print("wrote MANIFEST.json:", len(checks), "checks,", len(na), "not claimed")

if __name__ == "__main__":
    main()
