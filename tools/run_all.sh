#!/bin/bash
# usage: run_all.sh <tier> [ids...]   -- runs the registered commands one after another, logs exit codes and times
tier="$1"; shift
ids="${*:-C16 C11 C14 C05 C04 C06 C07 C08 C15 C13 C09 C03 C12 C10 C01 C02}"
cd /verif
for p in $ids; do
  t0=$(date +%s)
  out=$(./vf check $p --tier $tier 2>&1); code=$?
  echo "$p tier=$tier exit=$code t=$(( $(date +%s)-t0 ))s :: $(echo "$out" | grep -E "^\[$p\]|VIOLATION|INCONCLUSIVE" | head -3 | tr '\n' ' ' | cut -c1-300)"
done
