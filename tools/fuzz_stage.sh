#!/bin/bash
# Coverage-guided stage of the thorough tier (libFuzzer + AddressSanitizer + debug assertions).
# usage: fuzz_stage.sh <property> <runs-per-job>
# Writes work/fuzz-<prop>.json (summary) and work/fuzz-<prop>-cases.jsonl (decoded crashing cases); never decides by itself.
set -u
VERIF="$(cd "$(dirname "$0")/.." && pwd)"
prop="$1"; runs="${2:-30000}"
seed="${VERIF_SEED:-20260923}"
case "$prop" in
  C03|C09|C15) target=calls; which=0 ;;
  C12) target=compose; which=1 ;;
  C10) target=history; which=2 ;;
  *) exit 0 ;;
esac
cd "$VERIF"
sum="work/fuzz-$prop.json"; cases="work/fuzz-$prop-cases.jsonl"; : > "$cases"
export CARGO_NET_OFFLINE=true
if ! RUSTFLAGS="--cfg rustfft_verif" cargo +nightly fuzz build --fuzz-dir fuzz "$target" >"work/fuzz-build-$prop.log" 2>&1; then
  echo "{\"status\":\"skipped: fuzz build failed (see work/fuzz-build-$prop.log)\",\"target\":\"$target\"}" > "$sum"; exit 0
fi
corpus="work/fuzz-corpus-$prop"; art="work/fuzz-artifacts-$prop"
rm -rf "$corpus" "$art"; mkdir -p "$corpus" "$art"
# golden seeds: a few deterministic byte strings per kind (one input per case kind / planner / family)
python3 - "$corpus" "$seed" <<'PY'
import sys, random
d, seed = sys.argv[1], int(sys.argv[2])
r = random.Random(seed)
for i in range(72):
    b = bytes([i % 9, r.randrange(256)]) + bytes(r.randrange(256) for _ in range(30))
    open(f"{d}/golden{i:02d}", "wb").write(b)
PY
jobs=8
t0=$(date +%s)
RUSTFLAGS="--cfg rustfft_verif" cargo +nightly fuzz run --fuzz-dir fuzz "$target" "$corpus" -- -runs="$runs" -max_total_time="${VF_FUZZ_SECS:-900}" -seed="$seed" -len_control=0 -max_len=64 \
   -jobs=$jobs -workers=$jobs -artifact_prefix="$art/" >"work/fuzz-run-$prop.log" 2>&1
ncrash=0
for f in "$art"/crash-* "$art"/oom-* "$art"/timeout-*; do
  [ -e "$f" ] || continue
  case "$f" in *crash-*) ;; *) continue ;; esac
  ncrash=$((ncrash+1))
  j=$("$VERIF/bin/vf-engine-rel" fuzz-decode "$which" "$f" 2>/dev/null)
  [ -n "$j" ] && echo "{\"artifact\":\"$f\",\"case\":$j}" >> "$cases"
done
execs=$(grep -ho "Done [0-9]* runs" fuzz-*.log work/fuzz-run-$prop.log 2>/dev/null | awk '{s+=$2} END {print s+0}')
mv -f fuzz-*.log work/ 2>/dev/null
echo "{\"status\":\"ran\",\"target\":\"$target\",\"jobs\":$jobs,\"runs_per_job\":$runs,\"executions\":$execs,\"crash_artifacts\":$ncrash,\"wall_s\":$(( $(date +%s)-t0 ))}" > "$sum"
exit 0
