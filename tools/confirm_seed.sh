#!/bin/bash
# usage: confirm_seed.sh <dir with patch.diff + demo.rs> <name> [extra cargo flags for the demo, e.g. "--no-default-features --features sse"]
# Confirms, in a scratch worktree outside /repo and /verif: the patch applies and compiles, the unedited suite passes with it,
# the demo fails with it and passes without it. Writes <dir>/confirm.log and prints a one-line verdict.
set -u
dir="$1"; name="$2"; dflags="${3:-}"
wt=/tmp/confirm-wt-$name
export CARGO_NET_OFFLINE=true CARGO_TARGET_DIR=/tmp/confirm-target-$name
log="$dir/confirm.log"; : > "$log"
git -C /repo worktree remove --force "$wt" >/dev/null 2>&1
git -C /repo worktree add -q --detach "$wt" HEAD || { echo "$name: worktree failed"; exit 2; }
cd "$wt"
verdict="ok"
if ! git apply "$dir/patch.diff" >>"$log" 2>&1; then verdict="patch-does-not-apply"; fi
if [ "$verdict" = ok ]; then
  echo "== suite with patch" >>"$log"
  cargo test --workspace --no-fail-fast --offline -j 8 >>"$log" 2>&1
  res=$(grep -E "^test result" "$log" | awk '{p+=$4; f+=$6} END {print p" "f}')
  echo "suite: passed failed = $res" >>"$log"
  [ "$res" = "202 0" ] || verdict="suite-differs($res)"
fi
if [ "$verdict" = ok ]; then
  cp "$dir/demo.rs" tests/zz_demo.rs
  echo "== demo with patch" >>"$log"
  if cargo test --offline -j 8 $dflags --test zz_demo >>"$log" 2>&1; then verdict="demo-passes-with-patch"; fi
  git checkout -q -- src
  echo "== demo without patch" >>"$log"
  if ! cargo test --offline -j 8 $dflags --test zz_demo >>"$log" 2>&1; then verdict="demo-fails-without-patch"; fi
fi
cd /
git -C /repo worktree remove --force "$wt" >/dev/null 2>&1
rm -rf "$CARGO_TARGET_DIR"
echo "$name: $verdict"
echo "VERDICT $verdict" >>"$log"
