#!/usr/bin/env python3
"""Prints the markdown table of seeded changes (rounds given by the variant letters) from seeded/*/meta.json."""
import json, glob, sys, os
letters = sys.argv[1] if len(sys.argv) > 1 else "CDEF"
print("| id | what the change needs in order to manifest | caught by (tier, seconds incl. rebuild) | first reported reason |")
print("|----|---------------------------------------------|------------------------------------------|-----------------------|")
for d in sorted(glob.glob(os.path.join(os.path.dirname(os.path.dirname(os.path.abspath(__file__))), "seeded", "C*"))):
    sid = os.path.basename(d)
    if sid[-1] not in letters:
        continue
    m = json.load(open(os.path.join(d, "meta.json")))
    last = {}
    for r in m["checks_run_against_it"]:
        last[r["check"]] = r
    hits = [r for r in last.values() if r["exit"] == 1]
    miss = [r for r in last.values() if r["exit"] == 0]
    caught = ", ".join(f"{r['check']} ({r['tier']}, {r['seconds']} s)" for r in hits) or "--"
    if miss:
        caught += "; not by " + ", ".join(r["check"] for r in miss)
    reason = (hits[0]["first_reason"] if hits else "").replace("|", "/")[:200]
    print(f"| {sid} | {m['what_it_is_and_what_it_needs_to_manifest'].replace('|','/')} | {caught} | {reason} |")
