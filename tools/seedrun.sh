#!/bin/bash
# usage: seedrun.sh <slot> <seed-id> <patch.diff> <tier> Cxx [Cyy ...]
# Runs the named checks against a seeded change WITHOUT touching /repo: a scratch worktree of /repo (patched) plus an rsync copy
# of /verif whose path dependency points at that worktree -- same code, same commands. Several slots can run side by side.
# Prints one line per check:  <seed-id> <check> exit=<code> violations=<n> t=<s>s :: <first reason>
set -u
slot="$1"; sid="$2"; patch="$3"; tier="$4"; shift 4
root=/tmp/seedrun-$slot
git -C /repo worktree remove --force "$root/repo" >/dev/null 2>&1
rm -rf "$root/repo"
mkdir -p "$root"
git -C /repo worktree add -q --detach "$root/repo" HEAD || { echo "$sid: worktree failed"; exit 2; }
if ! git -C "$root/repo" apply "$patch"; then echo "$sid: patch does not apply"; git -C /repo worktree remove --force "$root/repo"; exit 2; fi
mkdir -p "$root/verif"
rsync -a --delete --exclude .git --exclude work --exclude bin --exclude replays --exclude 'fuzz/target' --exclude 'fuzz/corpus' --exclude 'fuzz/artifacts' /verif/ "$root/verif/"
sed -i "s#path = \"/repo\"#path = \"$root/repo\"#" "$root/verif/engine/Cargo.toml"
export VF_REPO="$root/repo"
cd "$root/verif" || exit 2
for p in "$@"; do
  t0=$(date +%s)
  out=$(./vf check "$p" --tier "$tier" 2>&1); code=$?
  n=$(echo "$out" | grep -c "^VIOLATION")
  echo "$sid $p exit=$code violations=$n t=$(( $(date +%s)-t0 ))s :: $(echo "$out" | grep -m1 'reason:' | cut -c1-400)"
done
cd /
git -C /repo worktree remove --force "$root/repo" >/dev/null 2>&1
